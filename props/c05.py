"""C05 - Sid -> path -> Sid is the identity in every path configuration.

E1 with configurations and import order as dimensions: full product of value sets for every type with a path template,
in every configured path configuration (+ the default), in two worker processes per partition that touch the path
configurations in opposite orders.  Oracle: mc.ref.paths.PathsRef.render + relations.
"""
from __future__ import annotations
import itertools, os, zlib
from pathlib import Path
from mc.rec import Recorder
from mc import universe

ID = "C05"
LEVEL = "exploration"
RULE = ("inputs = every concrete Sid from the full product of per-key value sets (2-3 closed-vocabulary members incl. all "
        "mapped values, digit boundary instances, names containing the file-name separator / a dot / a dash / a name "
        "spelled like a mapped folder or like the Sid-side value of a mapped key) for every configured type, plus every member of every closed vocabulary once at its "
        "position (alias names as plain values included), plus untyped Sids; x every path configuration and the "
        "default; x two import orders (first-touched configuration). distinct = distinct (sid, import order); "
        "non-trivial = the type has a path template in the configuration."
        " Added: the Sid obtained back from a path (from a Path, from a str, its copy) is asked for its path under every configuration in three spellings and must answer like the string-built Sid.")
ASSUMPTIONS = ["empty field values are outside the alphabet", "reference rendering = raw path template + inverse value "
               "mapping + defaults (mc/ref/paths.py)"]


def gen(ref, tier, extra_names):
    big = tier in ("thorough", "quick")     # the full-size universe costs 3 s: it is the quick tier too
    huge = tier == "thorough"
    saved = list(universe.NAMES)
    try:
        universe.NAMES[:] = saved + extra_names
        for typ in ref.types:
            small = tier == "c20"
            vs = universe.value_sets(ref, typ, n_closed=(6 if huge else 4) if big else (2 if small else 3), n_digit=(4 if huge else 3) if big else (1 if small else 2),
                                     n_names=len(universe.NAMES) if big else (2 if small else 4),
                                     search=False, aliases=False)
            # open placeholders: always include the separator name and the folder-like name
            for i, (k, p) in enumerate(ref.templates[typ]):
                if p is None:
                    for nm in ["my_hero"] + extra_names:
                        if nm not in vs[i]:
                            vs[i].append(nm)
            # names that begin with a value of another key of the same type, followed by the file-name separator ('anim_x' as a
            # node name next to the task 'anim'): one at a time on the base Sid
            base0 = [v[0] if v else "x" for v in vs]
            for i, (k, p) in enumerate(ref.templates[typ]):
                if p is None:
                    for j, (k2, p2) in enumerate(ref.templates[typ]):
                        if p2 is not None and j != i:
                            for w in ref.accepted(typ, j, ref.literals() + ref.digit_instances())[:6]:
                                if w not in ("*", ">"):
                                    yield typ, "/".join(base0[:i] + [w + "_x"] + base0[i + 1:])
            for combo in itertools.product(*vs):
                yield typ, "/".join(combo)
            # every member of every closed vocabulary (extension names that extend another one, alias names used as plain
            # values, every mapped value) once at its position
            base = [v[0] if v else "x" for v in vs]
            pool = ref.literals() + ref.digit_instances()
            for i, (k, p) in enumerate(ref.templates[typ]):
                if p is None:
                    continue
                for v in ref.accepted(typ, i, pool):
                    if v not in ("*", ">") and v != base[i]:
                        yield typ, "/".join(base[:i] + [v] + base[i + 1:])
    finally:
        universe.NAMES[:] = saved


_LAYOUT = {}


def _h64(text):
    """64-bit digest for the cross-shard injectivity table (a 32-bit one collides by chance at ~10^5 paths)."""
    import hashlib
    return int.from_bytes(hashlib.blake2b(text.encode(), digest_size=8).digest(), "big")


def layout_signature(pr):
    if pr.name not in _LAYOUT:
        root = pr.root()
        _LAYOUT[pr.name] = (tuple(sorted((t, v.replace(root, "<root>/")) for t, v in pr.templates.items())), repr(sorted(pr.mapping.items(), key=str)))
    return _LAYOUT[pr.name]


def plan(tier, seed):
    parts = 8
    shards = []
    for first in ("local", "server"):
        for i in range(parts):
            shards.append({"index": i, "count": parts, "first": first})
    return {"shards": shards}


def check_sid(ref, prefs, Sid, typ, s, rec, table):
    out = []
    x = Sid(s)
    if not x or x.type != typ:
        if ref.natural(s)[0] != typ:
            return out, "skipped-other-type-wins"
        out.append(dict(signature="typing-differs(C01)", observed=x.uri, expected=typ + ":" + s))
        return out, "typed"
    fields = x.fields
    has_any = False
    rels = {}
    for cname, pr in prefs.items():
        want = pr.render(typ, fields) if pr.has_path(typ) else None
        try:
            p1 = x.path(cname)
            p2 = Sid(fields=dict(reversed(list(fields.items())))).path(cname)
            Sid(s + "/zz").path(cname)  # unrelated call in between
            p3 = x.path(cname)
            p4 = x.path(config=cname)           # the other spelling of the same call
        except Exception as e:  # noqa
            out.append(dict(signature=f"path/exception/{type(e).__name__}", observed=[cname, repr(e)], expected=want))
            continue
        if not (p1 == p2 == p3 == p4):
            out.append(dict(signature="path/not-pure" + ("" if p1 == p2 == p3 else "/across-calls") + ("" if p3 == p4 else "/keyword-spelling"),
                            observed=[cname, str(p1), str(p2), str(p3), str(p4)], expected=want))
        if (str(p1) if p1 is not None else None) != want:
            sig = "path/none-expected" if want is None else ("path/missing" if p1 is None else "path/differs-from-template-rendering")
            out.append(dict(signature=sig, observed=[cname, str(p1)], expected=want))
            continue
        if p1 is None:
            continue
        has_any = True
        try:
            for o in prefs:                      # the other configurations are asked about the same path first
                if o != cname:
                    Sid(path=p1, config=o)
            back = Sid(path=p1, config=cname)
            back_s = Sid(path=str(p1), config=cname)
        except Exception as e:  # noqa
            out.append(dict(signature=f"roundtrip/exception/{type(e).__name__}", observed=[cname, str(p1), repr(e)], expected=x.uri))
            continue
        if not (back == x and back_s == x and list(back.fields.items()) == list(fields.items())):
            out.append(dict(signature="roundtrip/not-identity", observed=[cname, str(p1), back.uri, list(back.fields.items())], expected=x.uri))
        else:
            # pure function of (type, fields, c): the equal Sid that was built from a path answers every configuration -
            # the one it came from, the others, the default - as the Sid built from the string does
            for o in prefs:
                for b in (back, back_s, back.copy()):
                    try:
                        got = [str(b.path(o)), str(b.path(config=o))] + ([str(b.path())] if o is None else [])
                    except Exception as e:  # noqa
                        got = ["EXC " + type(e).__name__]
                    wanted = str(x.path(o))
                    if set(got) != {wanted}:
                        out.append(dict(signature="path/not-pure/sid-built-from-a-path", observed=[cname, o, got], expected=wanted))
                        break
        root = pr.root()
        rel = str(p1)[len(root):] if str(p1).startswith(root) else "!" + str(p1)
        rels[cname or "default"] = rel
        table.append((cname or "default", rel, x.uri))
    named = {k: v for k, v in rels.items() if k != "default"}
    # "differ only by the configured root": for configurations that share one layout (templates and value mapping equal
    # modulo the root, as local / server of the demo do); a configuration with its own folder vocabulary is another layout
    groups = {}
    for k, v in named.items():
        groups.setdefault(layout_signature(prefs[k]), {})[k] = v
    for g in groups.values():
        if len(set(g.values())) > 1:
            out.append(dict(signature="configurations-differ-by-more-than-root", observed=g, expected="equal relative paths"))
    return out, ("with-path" if has_any else "no-path-type")


def symlink_probe(ref, prefs, names, Sid, rec, first):
    """The path <-> Sid mapping is configuration, not file-system state: a Sid's path that exists as a symbolic link to
    another entity's path (a PUBLISH file linked to its WORK file, a version folder linked to the previous one) still
    resolves to the Sid it was rendered from."""
    from mc import env, tree
    conc = universe.one_per_type(ref, rep=1)
    for cname in names:
        pr = prefs[cname]
        env.clear_tree()
        for typ, s in conc.items():
            if not pr.has_path(typ) or len(ref.keys(typ)) < 3:
                continue
            segs = s.split("/")
            for i in range(2, len(segs)):
                pool = [v for v in ref.accepted(typ, i, ref.literals() + ref.digit_instances()) if v not in ("*", ">") and v != segs[i] and v not in ref.alias]
                if not pool:
                    continue
                other = "/".join(segs[:i] + [pool[0]] + segs[i + 1:])
                if ref.natural(other)[0] != typ:
                    continue
                pa = tree.entity_path(ref, pr, s)
                pb = tree.entity_path(ref, pr, other)
                if pa is None or pb is None or pa[0] == pb[0]:
                    continue
                tree.materialize(ref, pr, [s])
                os.makedirs(os.path.dirname(pb[0]), exist_ok=True)
                if os.path.lexists(pb[0]):
                    continue
                os.symlink(pa[0], pb[0])
                env.reset()
                for form in (pb[0], Path(pb[0])):
                    try:
                        back = Sid(path=form, config=cname)
                        ok = back.uri == typ + ":" + other and str(Sid(other).path(cname)) == pb[0]
                    except Exception as e:  # noqa
                        back, ok = "EXC " + type(e).__name__, False
                    rec.case("symlinked-path", True, sample=[cname, other, "->", s])
                    if not ok:
                        rec.violation("roundtrip/depends-on-file-system-state(symlink)", "symlink", [cname, s, other, first],
                                      getattr(back, "uri", back), typ + ":" + other)
                os.unlink(pb[0])
    env.clear_tree()


def run_shard(sh):
    from mc.ref.model import Conf
    from mc.ref.paths import PathsRef
    from spil import Sid
    ref = Conf()
    names = list(PathsRef().configs)
    prefs = {n: PathsRef(n) for n in names}
    prefs[None] = PathsRef(None)
    extra = []
    for k, m in prefs[names[0]].mapping.items():
        for pv in m:
            if pv not in extra:
                extra.append(pv)
    extra = extra[-1:]  # a name spelled like a mapped folder (e.g. PUBLISH)
    extra += ["$HOME", "${HOME}", "~", "%HOME%"]        # names spelled like shell / environment syntax (HOME is set in every worker)
    for k, m in prefs[names[0]].mapping.items():   # ... and names spelled like the Sid-side values of the mapped keys (hamlet, a, s, w, p)
        for sv in m.values():
            if isinstance(sv, str) and sv not in extra:
                extra.append(sv)
    # import order: touch the 'first' configuration before anything else resolves a path
    order = [sh["first"]] + [n for n in names if n != sh["first"]]
    probe = universe.one_per_type(ref)
    for cname in order:
        if cname in names:
            for s in list(probe.values())[:3]:
                Sid(s).path(cname)
    rec = Recorder(sh["index"], sh["count"], sh["seed"])
    table = []
    for typ, s in gen(ref, sh["tier"], extra):
        if not rec.mine(s):
            continue
        viols, cls = check_sid(ref, prefs, Sid, typ, s, rec, table)
        if cls.startswith("skipped"):
            rec.count(cls)
            continue
        rec.case(cls, cls == "with-path", sample=s)
        for v in viols:
            rec.violation(v["signature"], "sid", [s, sh["first"]], v["observed"], v["expected"])
    if sh["index"] == 0:
        symlink_probe(ref, prefs, names, Sid, rec, sh["first"])
    for s in ["bla", "hamlet/zz", "", "a/b/c/d/e/f/g/h/i/j"]:
        x = Sid(s)
        for cname in list(names) + [None]:
            try:
                p = x.path(cname)
            except Exception as e:  # noqa
                p = "EXC " + type(e).__name__
            rec.case("untyped-no-path", True)
            if p is not None:
                rec.violation("untyped-sid-has-path-or-raises", "sid", [s, sh["first"]], str(p), None)
    digest = zlib.crc32("\n".join(sorted("|".join(t) for t in table)).encode())
    rec.extra = {"first": sh["first"], "index": sh["index"], "digest": digest,
                 "table": [(c, _h64(r), _h64(u), r if len(table) < 200 else "") for c, r, u in table]}
    res = rec.result()
    for lst in res["violations"].values():
        for v in lst:
            v["env"] = {"env": {"VERIF_FIRST_CONFIG": sh["first"]}}     # one confirmation process per first-loaded configuration
    return res


def post(m, results, tier, seed):
    """Cross-shard oracles: injectivity over the whole universe; identical tables for both import orders."""
    by = {}
    for r in results:
        e = r["extra"]
        by.setdefault(e["index"], {})[e["first"]] = e["digest"]
    for idx, d in by.items():
        if len(set(d.values())) > 1:
            m["violations"].setdefault("import-order-changes-paths", []).append(
                {"signature": "import-order-changes-paths", "kind": "order", "case": ["partition", idx], "observed": d, "expected": "equal digests", "note": ""})
            m["viol_count"]["import-order-changes-paths"] += 1
    seen = {}
    for r in results:
        if r["extra"]["first"] != "local":
            continue
        for c, pr, ur, _ in r["extra"]["table"]:
            k = (c, pr)
            if k in seen and seen[k] != ur:
                m["violations"].setdefault("two-sids-one-path", []).append(
                    {"signature": "two-sids-one-path", "kind": "order", "case": [c, pr], "observed": [seen[k], ur], "expected": "injective", "note": ""})
                m["viol_count"]["two-sids-one-path"] += 1
            seen[k] = ur
    m["extra"] = [{"paths_in_injectivity_table": len(seen)}]


def replay_case(kind, case):
    if kind == "symlink":
        from mc.ref.model import Conf
        from mc.ref.paths import PathsRef
        from spil import Sid
        ref = Conf()
        names = list(PathsRef().configs)
        prefs = {n: PathsRef(n) for n in names}
        rec = Recorder()
        symlink_probe(ref, prefs, names, Sid, rec, case[3])
        return [v for lst in rec.violations.values() for v in lst]
    if kind == "order":
        return [dict(signature="import-order-changes-paths" if case[0] == "partition" else "two-sids-one-path", observed=case, expected="")]
    from mc.ref.model import Conf
    from mc.ref.paths import PathsRef
    from spil import Sid
    ref = Conf()
    names = list(PathsRef().configs)
    prefs = {n: PathsRef(n) for n in names}
    prefs[None] = PathsRef(None)
    s, first = case
    Sid("hamlet").path(first)
    rec = Recorder()
    t = ref.natural(s)[0]
    if not t:
        p = Sid(s).path()
        return [] if p is None else [dict(signature="untyped-sid-has-path-or-raises", observed=str(p), expected=None)]
    return check_sid(ref, prefs, Sid, t, s, rec, [])[0]


def coverage(m, tier, seed):
    return {"exhaustive": True, "import_orders": 2, "injectivity": m["extra"]}
