"""C04 - updating a Sid by query or get_with is all-or-nothing and never guesses.

E1: one concrete + one search Sid per type (+ forced-type search Sids) x every overlay of 1..2 (thorough 3) pairs from a
configuration-derived pair menu, through three routes.
"""
from __future__ import annotations
import itertools
from mc.rec import Recorder
from mc import universe

ID = "C04"
LEVEL = "exploration"
RULE = ("inputs = (Sid, overlay, route): Sids = per type one concrete, one search ('*' in two positions), plus forced-type "
        "search Sids; overlay = every ordered tuple of 1..k pairs on distinct keys from the menu {existing key x (other valid, "
        "invalid, '*', '>', ~valid, ~invalid, empty), deeper keys x (valid, ~valid), foreign key, unknown key}; routes = "
        "Sid(s?q), get_with(query=q), get_with(**kw) incl. None for existing/absent keys and the key=/value= form; plus every "
        "1-pair (and 2-pair with an optional value) query applied first to another Sid of the basetype (shortest / longest), then to the Sid. "
        "distinct = distinct (uri, query) ; non-trivial = overlay changes at least one field or is refused.")
ASSUMPTIONS = ["query values contain no URL metacharacters; the only control character is a url-encoded trailing newline", "blank values (k=) are dropped by the query "
               "syntax (urllib parse_qsl) in both model and implementation"]


def key_values(ref, base, key):
    pool = ref.literals() + ref.digit_instances() + universe.NAMES
    out = []
    for typ, tpl in ref.templates.items():
        if ref.basetype(typ) != base:
            continue
        for i, (k, p) in enumerate(tpl):
            if k == key:
                for v in (ref.accepted(typ, i, pool) if p is not None else universe.NAMES[:2]):
                    if v not in out:
                        out.append(v)
    return out


def pair_menu(ref, typ, d):
    base = ref.basetype(typ)
    keys = list(d)
    chain = list(ref.key_types.get(base, keys))
    menu = []
    for k in keys:
        vals = [v for v in key_values(ref, base, k) if v != d[k]]
        valid = vals[0] if vals else d[k]
        for v in (valid, "bogus!", "*", ">", "~" + valid, "~bogus!", ""):
            menu.append((k, v))
        if k == keys[-1] or k == keys[0]:
            menu.append((k, d[k] + "%0A"))      # a valid value followed by an (url-encoded) newline: an invalid value
    deeper = [k for k in chain if k not in keys]
    # "deeper" = the keys that follow the last key in the basetype's chain
    for k in deeper[:2]:
        vals = key_values(ref, base, k)
        if vals:
            menu.append((k, vals[0]))
            menu.append((k, "~" + vals[0]))
        menu.append((k, "*"))
        menu.append((k, ">"))
    for b2, ch in ref.key_types.items():
        if b2 != base:
            f = [k for k in ch if k not in chain]
            if f:
                vs = key_values(ref, b2, f[0])
                menu.append((f[0], vs[0] if vs else "x"))
                break
    menu.append(("bogus", "1"))
    menu.append(("bogus", "~1"))
    return menu


def deeper_key(ref, t, d):
    ch = [k for k in ref.key_types.get(ref.basetype(t), []) if k not in d]
    return ch[0] if ch else None


def sids(ref):
    """(string, forced type|None)"""
    out = []
    conc = universe.one_per_type(ref)
    for typ, s in conc.items():
        out.append((s, None))
        segs = s.split("/")
        if len(segs) >= 2:
            srch = list(segs)
            srch[-1] = "*"
            if len(segs) >= 4:
                srch[2] = "*"
            st = "/".join(srch)
            nat = ref.natural(st)[0]
            out.append((st, None if nat == typ else typ))
    res = []
    for s, f in out:
        if (s, f) not in res and (f or ref.natural(s)[0]):
            res.append((s, f))
    return res


def check_query(ref, Sid, s, forced, q, route):
    out = []
    uri = (forced + ":" + s) if forced else s
    x = Sid(uri)
    t, d = x.type, x.fields
    allowed = ref.query_outcomes(t, d, s, q)
    try:
        y = Sid(uri + "?" + q) if route == "string" else x.get_with(query=q)
    except Exception as e:  # noqa
        return [dict(signature=f"query/exception/{type(e).__name__}", observed=repr(e), expected=sorted(map(list, allowed)))], "exception"
    ov = ref.overlay(d, q)
    if "?" in y.string:
        got = ("refused",)
        if y.type != t or list(y.fields.items()) != list(d.items()) or not y.string.startswith(s + "?") or ref.qdict(y.string[len(s) + 1:]) != ref.qdict(q):
            out.append(dict(signature="query/refused-but-changed", observed=[y.uri, list(y.fields.items())], expected=[t + ":" + s + "?" + q, list(d.items())]))
    elif not y:
        got = ("untyped",)
    else:
        got = ("applied", y.type)
        want = ref.ordered(y.type, ov) if set(ov) == set(ref.keys(y.type)) else None
        if want is None or list(y.fields.items()) != list(want.items()) or y.string != ref.canonical(y.type, want):
            out.append(dict(signature="query/applied-fields-or-string-wrong", observed=[y.uri, list(y.fields.items())], expected=[ov]))
    if got not in allowed:
        out.append(dict(signature=f"query/decision/{got[0]}-but-expected-{'|'.join(sorted(a[0] for a in allowed))}",
                        observed=list(got), expected=sorted(map(list, allowed))))
    return out, got[0]


def check_kw(ref, Sid, s, forced, kw, form):
    uri = (forced + ":" + s) if forced else s
    x = Sid(uri)
    d = x.fields
    exp = {k: v for k, v in d.items() if not (k in kw and kw[k] is None)}
    exp.update({k: v for k, v in kw.items() if v is not None})
    F = ref.fits(exp) if exp else []
    try:
        if form == "kv":
            (k, v), = kw.items()
            y = x.get_with(key=k, value=v)
        else:
            y = x.get_with(**kw)
    except Exception as e:  # noqa
        shape = "None-for-absent-key" if any(v is None and k not in d for k, v in kw.items()) else "other"
        return [dict(signature=f"get_with/exception/{type(e).__name__}/{shape}", observed=repr(e), expected="typed with overlay or untyped")], "exception"
    out = []
    if y:
        if dict(y.fields) != exp or y.type not in F or list(y.fields) != ref.keys(y.type) or y.string != ref.canonical(y.type, exp):
            out.append(dict(signature="get_with/typed-with-other-fields", observed=[y.uri, list(y.fields.items())], expected=exp))
        return out, "kw-typed"
    if F and not ("" in exp.values()):
        out.append(dict(signature="get_with/untyped-although-overlay-fits", observed=y.uri, expected=F))
    return out, "kw-untyped"


def cases(ref, k):
    for s, forced in sids(ref):
        t = forced or ref.natural(s)[0]
        d = ref.forced(s, t)
        menu = pair_menu(ref, t, d)
        for r in range(1, k + 1):
            for combo in itertools.permutations(menu, r):
                if len({kk for kk, _ in combo}) != r:
                    continue
                q = "&".join(f"{kk}={vv}" for kk, vv in combo)
                yield ("q", s, forced, q)
                if r == 2:
                    yield ("q", s, forced, "?".join(f"{kk}={vv}" for kk, vv in combo))     # '?' may separate pairs
                elif r == 1:
                    yield ("q", s, forced, "?" + q)                                        # documented form: '?key=value'
                    yield ("q", s, forced, q + "&")
                if not any(v.startswith("~") or "%" in v for _, v in combo):
                    yield ("kw", s, forced, dict(combo))
        # the same query text applied to another Sid first (one that owns other keys), from cold caches: the overlay is a
        # function of (sid, query), not of who was asked before
        partners = [(s2, f2) for s2, f2 in sids(ref) if (s2, f2) != (s, forced) and ref.basetype(f2 or ref.natural(s2)[0]) == ref.basetype(t)]
        partners = sorted(partners, key=lambda p: len(p[0].split("/")))
        partners = [p for i, p in enumerate(partners) if i in (0, len(partners) - 1)]
        for r in range(1, min(k, 2) + 1):
            for combo in itertools.permutations(menu, r):
                if len({kk for kk, _ in combo}) != r or (r == 2 and not any(v.startswith("~") for _, v in combo)):
                    continue
                q = "&".join(f"{kk}={vv}" for kk, vv in combo)
                for s2, f2 in partners:
                    yield ("qq", s, forced, [q, s2, f2])
        # keyword overlays whose value spells Sid syntax (a '?', a 'key=value' tail, a ':'): a value is a value, never re-read
        ks = list(d)
        for i, kk in enumerate(ks):
            if ref.templates[t][i][1] is None:
                nxt = ks[i + 1] if i + 1 < len(ks) else (deeper_key(ref, t, d) or "bogus")
                for vv in ("who?", "x?%s=%s" % (nxt, d.get(nxt, "zz")), "x?%s=*" % ks[0], "a:b", "?"):
                    yield ("kw", s, forced, {kk: vv})
                    yield ("kv", s, forced, {kk: vv})
        # None overlays
        chain = list(d) + [kk for kk in ref.key_types.get(ref.basetype(t), []) if kk not in d][:1] + ["bogus"]
        for kk in chain:
            yield ("kw", s, forced, {kk: None})
            yield ("kv", s, forced, {kk: None})
            for k2, v2 in menu[:3]:
                if k2 != kk:
                    yield ("kw", s, forced, {kk: None, k2: v2})
        for kk, vv in menu:
            if not vv.startswith("~"):
                yield ("kv", s, forced, {kk: vv.replace("%0A", "\n")})


def check_case(ref, case):
    from spil import Sid
    kind, s, forced, arg = case
    if kind == "qq":
        from mc import env
        q, s2, f2 = arg
        env.reset()
        for route in ("string", "get_with"):
            try:
                check_query(ref, Sid, s2, f2, q, route)
            except Exception:  # noqa  (the partner's own answer is judged by its own 'q' case)
                pass
        out, cls = [], []
        for route in ("string", "get_with"):
            o, c = check_query(ref, Sid, s, forced, q, route)
            out += [dict(v, signature=v["signature"] + "/after-the-same-query-on-another-sid") for v in o]
            cls.append(c)
        env.reset()
        return out, "query-after-other:" + "/".join(cls)
    if kind == "q":
        out = []
        cls = []
        for route in ("string", "get_with"):
            o, c = check_query(ref, Sid, s, forced, arg, route)
            out += o
            cls.append(c)
        return out, "query:" + "/".join(cls)
    o, c = check_kw(ref, Sid, s, forced, arg, "kv" if kind == "kv" else "kw")
    return o, c


def plan(tier, seed):
    return {"shards": [{"index": i, "count": 16} for i in range(16)]}


def run_shard(sh):
    from mc.ref.model import Conf
    ref = Conf()
    rec = Recorder(sh["index"], sh["count"], sh["seed"])
    k = 3 if sh["tier"] == "thorough" else (1 if sh["tier"] == "c20" else 2)
    import json
    from mc import env
    hist = []
    for case in cases(ref, k):
        key = json.dumps(case, sort_keys=True)
        if not rec.mine(key):
            continue
        if k == 3 and case[0] == "q" and case[3].count("&") == 2 and len(case[1].split("/")) > 5:
            # thorough: triples only on Sids of <= 5 fields (the longer ones have ~60 pairs: 2*10^5 triples each)
            rec.count("triple-skipped-on-long-sid")
            continue
        if len(hist) >= HIST or case[0] == "qq":
            env.reset()
            hist = []
        viols, cls = check_case(ref, list(case))
        if viols and hist:
            # is it this input, or what was asked before it? decide from cold caches; a violation that needs the calls
            # made since the last reset is reported with exactly those calls as its (replayable) history
            env.reset()
            v2, _ = check_case(ref, list(case))
            cold = {v["signature"] for v in v2}
            for v in viols:
                if v["signature"] not in cold:
                    rec.violation(v["signature"] + "/depends-on-earlier-calls", "history", [list(c) for c in hist] + [list(case)], v["observed"], v["expected"])
            viols = v2
            hist = []
        hist.append(case)
        rec.case(cls, True, sample=list(case))
        for v in viols:
            rec.violation(v["signature"], "overlay", list(case), v["observed"], v["expected"])
    return rec.result()


HIST = 200


def replay_case(kind, case):
    from mc.ref.model import Conf
    from mc import env
    ref = Conf()
    if kind == "history":
        env.reset()
        for c in case[:-1]:
            check_case(ref, c)
        cold_first = check_case(ref, case[-1])[0]
        return [dict(v, signature=v["signature"] + "/depends-on-earlier-calls") for v in cold_first]
    return check_case(ref, case)[0]


def coverage(m, tier, seed):
    return {"bounds": {"pairs": 3 if tier == "thorough" else 2}, "exhaustive": True}
