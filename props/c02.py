"""C02 - string, fields, query and uri forms of a typed Sid all denote the same Sid.

E1: full product of per-key value sets for every configured type (natural typing only), every construction form.
"""
from __future__ import annotations
import itertools
from mc.rec import Recorder
from mc import universe

ID = "C02"
LEVEL = "exploration"
RULE = ("inputs = for every configured type the full product of per-key value sets (closed vocabulary members, "
        "digit-pattern boundary instances, names incl. the file-name separator and the empty value where the key's pattern accepts it, '*', '>', every alias in the last "
        "position); kept when the reference types the string naturally to some type. For each: Sid(uri), "
        "Sid(fields=perm) for all permutations (<=5 keys) or identity/reversal/rotations/adjacent transpositions, "
        "Sid(query=as_query()), eval(repr()), copy(). distinct = distinct strings; non-trivial = every case (all are typed).")
ASSUMPTIONS = ["names contain no quote/backslash (repr is not claimed to escape)", "query round trip only for non-empty values "
               "without whitespace or URL metacharacters", "x==y <=> (type, fields) equal is checked inside each content-hash shard"]
URLMETA = set("&=?#%+; \t\n\r")


def perms(keys):
    n = len(keys)
    if n <= 5:
        yield from itertools.permutations(range(n))
        return
    idx = list(range(n))
    yield tuple(idx)
    yield tuple(reversed(idx))
    for r in range(1, n):
        yield tuple(idx[r:] + idx[:r])
    for i in range(n - 1):
        p = list(idx)
        p[i], p[i + 1] = p[i + 1], p[i]
        yield tuple(p)


def check_case(ref, s, groups=None, polluted=False):
    from spil import Sid
    out = []

    def bad(sig, obs, exp):
        out.append(dict(signature=sig, observed=obs, expected=exp))

    t, d = ref.natural(s)
    if t is None:
        return out, "skipped-untyped"
    if polluted:
        # a Sid *object* of another type that accepts the same string went through the factory first (cold factory cache)
        others = [t2 for t2 in ref.all_types(s) if t2 != t]
        if not others:
            return out, "skipped-unambiguous"
        from spil.sid.core.sid_factory import sid_to_sid
        sid_to_sid.cache_clear()
        Sid(Sid(others[0] + ":" + s))
    x = Sid(s)
    items = list(d.items())
    if x.type != t or list(x.fields.items()) != items or x.string != s:
        bad("base-typing-differs(C01)", [x.type, list(x.fields.items()), x.string], [t, items, s])
        return out, "typed:" + t
    if x.string != ref.canonical(t, d):
        bad("string-not-canonical", x.string, ref.canonical(t, d))

    def same(y, route):
        try:
            ok = (y == x) and (x == y) and y.type == t and y.string == s and list(y.fields.items()) == items and hash(y) == hash(x)
        except Exception as e:  # noqa
            bad(f"{route}/exception/{type(e).__name__}", repr(e), "equal Sid")
            return
        if not ok:
            bad(f"{route}/differs", [getattr(y, 'uri', repr(y)), list(getattr(y, 'fields', {}).items())], [t + ":" + s, items])

    def attempt(route, f):
        try:
            y = f()
        except Exception as e:  # noqa
            bad(f"{route}/exception/{type(e).__name__}", repr(e), "equal Sid")
            return
        same(y, route)

    attempt("uri", lambda: Sid(x.uri))
    keys = [k for k, _ in items]
    for p in perms(keys):
        fd = {keys[i]: d[keys[i]] for i in p}
        attempt("fields" if list(p) == sorted(p) else "fields-permuted", lambda: Sid(fields=fd))
    if all(v and not (set(v) & URLMETA) for v in d.values()):
        # (a value that starts with '~' reads as an optional value in a query: reported under its own signature)
        attempt("query" + ("/value-starts-with-the-optional-marker" if any(v.startswith("~") for v in d.values()) else ""), lambda: Sid(query=x.as_query()))
    if not any(c in s for c in "'\\"):
        attempt("repr", lambda: eval(repr(x), {"Sid": Sid}))
    attempt("copy", lambda: x.copy())
    # a caller that edits the dictionary it got from .fields (to build a sibling) must not change what the string denotes
    try:
        dd = x.fields
        for k in list(dd):
            dd[k] = "edited"
        dd.clear()
        y = Sid(s)
        if list(y.fields.items()) != items or y.string != s or list(x.fields.items()) != items:
            bad("fields-dictionary-is-shared-with-the-sid", [list(y.fields.items())[:3]], items[:3])
    except Exception as e:  # noqa
        bad(f"fields-mutation/exception/{type(e).__name__}", repr(e), "no effect")
    if groups is not None:
        groups[0].setdefault(x, set()).add((t, tuple(items)))
    return out, "typed:" + t


def params(tier):
    if tier == "c20":
        return dict(n_closed=1, n_digit=1, n_names=1, search="star-only")
    if tier == "thorough":
        return dict(n_closed=2, n_digit=2, n_names=2, empty=True)
    return dict(n_closed=1, n_digit=1, n_names=2, empty=True)


SPECIAL_NAMES = ["a~b", "ab~", "~ab", "a!b", "a@b", "a(b)", "\u00e9t\u00e9", "a'b", "a|b", "v1.2-rc+1",
                 "ophe\u0301lie",            # a decomposed accent (as some file systems list names): not the same string as the composed one
                 "ab ", " ab", "a b", "ab\t"]  # blanks at either end and inside: part of the value


def gen(ref, tier):
    p = params(tier)
    for typ in ref.types:
        yield from universe.typed_strings(ref, typ, **p)
    # names with characters that mean something somewhere in the Sid syntax without being whitespace or URL metacharacters
    # (the optional-value marker '~' inside, at the end and in front of a value), one free-text position at a time
    conc = universe.one_per_type(ref)
    for typ, s in conc.items():
        segs = s.split("/")
        for i, (k, pat) in enumerate(ref.templates[typ]):
            if pat is None:
                for nm in SPECIAL_NAMES:
                    yield "/".join(segs[:i] + [nm] + segs[i + 1:])
                # long names: the string, or its uri, exactly at and one past the classic length limits (no limit is documented)
                rest = len("/".join(segs[:i] + [""] + segs[i + 1:]))
                for limit in (255, 256, 1024, 4096):
                    for total in (limit, limit + 1, limit - len(typ) - 1, limit - len(typ)):
                        if total - rest > 0:
                            yield "/".join(segs[:i] + ["x" * (total - rest)] + segs[i + 1:])


def plan(tier, seed):
    n = 16 if tier == "thorough" else 8
    return {"shards": [{"index": i, "count": n} for i in range(n)]}


def run_shard(sh):
    from mc.ref.model import Conf
    ref = Conf()
    rec = Recorder(sh["index"], sh["count"], sh["seed"])
    groups = ({}, {})
    for s in gen(ref, sh["tier"]):
        if not rec.mine(s):
            continue
        viols, cls = check_case(ref, s, groups)
        if cls == "skipped-untyped":
            rec.count("skipped-not-naturally-typed")
            continue
        rec.case(cls, True, sample=s)
        for v in viols:
            rec.violation(v["signature"], "str", s, v["observed"], v["expected"])
        # once more after a Sid object of another type of the same string (ambiguous strings only)
        v2, cls2 = check_case(ref, s, None, polluted=True)
        if not cls2.startswith("skipped"):
            rec.case(cls2 + "/after-object-of-other-type", True, sample=s)
            for v in v2:
                rec.violation(v["signature"] + "/after-object-of-other-type", "str-polluted", s, v["observed"], v["expected"])
            from spil.sid.core.sid_factory import sid_to_sid
            sid_to_sid.cache_clear()
    # x == y  <=>  (type, fields) equal, over everything this shard saw
    for sid, tfs in groups[0].items():
        if len(tfs) > 1:
            ss = sorted(ref.canonical(t, dict(i)) for t, i in tfs)
            rec.violation("equal-sids-with-different-type-or-fields", "pair", ss[:2], sorted(map(str, tfs)), "one (type, fields)")
    # cross-shard: hash of the Sid (what sets and dictionaries use) against (type, fields), merged by the driver
    import zlib
    rec.extra = {"eq_groups": len(groups[0]), "typefield_groups": len(groups[1]),
                 "hash_table": [[hash(sid) & 0xFFFFFFFFFFFF, zlib.crc32(repr(sorted(tfs)).encode())] for sid, tfs in groups[0].items()]}
    return rec.result()


def post(m, results, tier, seed):
    """x == y <=> (type, fields) equal, across shards: two Sids with different (type, fields) must not share a hash+uri
    class; checked through the per-shard hash tables (equal Sids hash equally, so equal Sids of different shards would
    show up as one hash with two (type, fields) digests)."""
    seen = {}
    clash = 0
    for r in results:
        for h, tf in r["extra"].get("hash_table", []):
            if h in seen and seen[h] != tf:
                clash += 1
            seen.setdefault(h, tf)
        r["extra"].pop("hash_table", None)
    m["extra"] = [{"sids_in_cross_shard_table": len(seen), "hash_classes_with_two_type_field_sets": clash}]
    if clash:
        sig = "hash-class-with-different-type-or-fields-across-shards"
        m["violations"][sig] = [{"signature": sig, "kind": "cross", "case": clash, "observed": clash, "expected": 0, "note": ""}]
        m["viol_count"][sig] += clash


def replay_case(kind, case):
    if kind == "cross":
        return [dict(signature="hash-class-with-different-type-or-fields-across-shards", observed=case, expected=0)]
    from mc.ref.model import Conf
    ref = Conf()
    if kind == "pair":
        from spil import Sid
        a, b = Sid(case[0]), Sid(case[1])
        same_tf = (ref.natural(case[0]) == ref.natural(case[1]))
        if (a == b) != same_tf:
            return [dict(signature="equal-sids-with-different-type-or-fields", observed=[a.uri, b.uri, a == b], expected=same_tf)]
        return []
    if kind == "str-polluted":
        return [dict(v, signature=v["signature"] + "/after-object-of-other-type") for v in check_case(ref, case, None, polluted=True)[0]]
    return check_case(ref, case)[0]


def coverage(m, tier, seed):
    return {"bounds": params(tier), "exhaustive": True, "cross_shard": m["extra"][:1]}
