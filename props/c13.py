"""C13 - answers never depend on what was asked before (caches are invisible).

E2 over call histories: every ordered pair (thorough: triple) of calls from an alphabet covering all cached entry points
and every flag / configuration value, executed without reset in between, under cache capacities {default, 1, 2};
the answer of the last call must equal the answer of the same call in a genuinely fresh interpreter (one interpreter
launch per call and data state).  Dimensions: string-hash seed, first-touched path configuration.
"""
from __future__ import annotations
import os, sys, json, subprocess, itertools, zlib
from mc.rec import Recorder

ID = "C13"
LEVEL = "model_checking"
ENGINE = "E2-explicit-state-histories"
TECHNIQUE = "exhaustive enumeration of call histories (all ordered pairs / triples) on the real code vs fresh-interpreter answers"
RULE = ("histories = every ordered pair (thorough: also every triple) over the call alphabet (Sid from string / uri / fields / "
        "query / path x config forms, path(config) positional and keyword, sid_to_dict(s) forms, path_to_dict forms, "
        "unfold_search flag forms, simple_typing, get_path_config, get_finder, match, find on four Finders fully and "
        "partially consumed, create events), no reset inside a history; x cache capacities {default,1,2}; x hash seeds; "
        "x first-touched path configuration. Oracle: canonical answer == answer in a fresh interpreter for that data "
        "state; fresh tables equal across seeds and import orders (incl. list order); positional == keyword forms. "
        "state = hash of all spil cache contents + data state; distinct = distinct histories; non-trivial = histories "
        "whose last call hits at least one cached entry point (all)."
        " Added: calls on one FindInList object that lives as long as the history, over an unsorted list.")
ASSUMPTIONS = ["resolva's functools caches cannot be dumped; histories are therefore never pruned on state equality",
               "find answers are compared with order on unchanged data, as sets once a create event happened (directory order)"]

BASE = ["{A}/v001/w/ma", "{A}/v001/w/mb", "{A}/v002/p/ma", "{A2}/v001/w/ma"]


def _ctx():
    from mc.ref.model import Conf
    from mc.ref.paths import PathsRef
    from mc import universe
    ref = Conf()
    conc = universe.one_per_type(ref)
    leaf_types = [t for t in ref.types if ref.is_leaf_type(t)]
    LEAF = conc[leaf_types[0]]
    segs = LEAF.split("/")
    SEARCH = "/".join(segs[:-1] + ["*"])
    forced = list(ref.all_types(SEARCH))
    prs = {n: PathsRef(n) for n in PathsRef().configs}
    names = list(prs)
    # data: entities under two tasks of LEAF's hierarchy, server holds one entity less
    ents = [LEAF]
    v = ref.digit_instances()
    alt = "/".join(segs[:-1] + [[x for x in ref.accepted(leaf_types[0], len(segs) - 1, ref.literals()) if x != segs[-1] and x not in ref.alias][0]])
    ents.append(alt)
    ver_i = ref.keys(leaf_types[0]).index("version") if "version" in ref.keys(leaf_types[0]) else len(segs) - 3
    vers = [x for x in ref.accepted(leaf_types[0], ver_i, v) if x != segs[ver_i]]
    e3 = list(segs)
    e3[ver_i] = vers[0]
    ents.append("/".join(e3))
    X = list(segs)
    X[ver_i] = vers[1]
    Y = list(segs)
    Y[ver_i] = vers[2]
    return dict(ref=ref, prs=prs, names=names, LEAF=LEAF, SEARCH=SEARCH, forced=forced, ents=ents,
                X="/".join(X), Y="/".join(Y), conc=conc, leaf_type=leaf_types[0], ver_i=ver_i)


def canon(x):
    from spil import Sid
    from pathlib import Path
    if isinstance(x, Sid):
        return ["Sid", x.uri, list(x.fields.items()), x.string]
    if isinstance(x, (list, tuple)):
        return [canon(i) for i in x]
    if isinstance(x, dict):
        return ["dict"] + [[k, canon(v)] for k, v in x.items()]
    if isinstance(x, Path):
        return ["Path", str(x).replace(os.environ.get("VERIF_WORKDIR", "\0"), "<W>")]
    if hasattr(x, "__next__"):
        return canon(list(x))
    if x.__class__.__name__ == "PathConfig":
        return ["PathConfig", x.name]
    if x.__class__.__module__.startswith("spil") and hasattr(x, "do_find"):
        return ["Finder", x.__class__.__name__, getattr(x, "config_name", getattr(x, "config", None)), getattr(x, "key", None)]
    if x is None or isinstance(x, (str, int, float, bool)):
        return x
    return repr(x)


_SHARED: dict = {}


def calls(C):
    """name -> (thunk, data_dependent, equivalence group|None)"""
    from spil import Sid, FindInPaths, FindInAll, FindInList, WriteToPaths
    from spil.sid.read.tools import unfold_search
    from spil.sid.core.sid_resolver import sid_to_dict, sid_to_dicts
    from spil.sid.core.utils import simple_typing
    from spil.sid.pathops.fs_resolver import path_to_dict
    from spil.sid.pathops.pathconfig import get_path_config
    from spil.sid.read.finders.find_all import get_finder
    from mc import tree
    from mc import env as _env
    if _SHARED.clear not in _env.RESET_HOOKS:
        _env.RESET_HOOKS.append(_SHARED.clear)
    ref, prs, names = C["ref"], C["prs"], C["names"]
    LEAF, SEARCH, forced = C["LEAF"], C["SEARCH"], C["forced"]
    c1, c2 = names[0], names[-1]
    P = {n: tree.entity_path(ref, prs[n], LEAF)[0] for n in names}
    d = ref.natural(LEAF)[1]
    keys = list(d)
    other_last = C["ents"][1].split("/")[-1]
    U = "/".join(LEAF.split("/")[:1] + ["*"] + LEAF.split("/")[2:3] + ["*"]) if len(keys) > 3 else SEARCH
    U = LEAF.split("/")[0] + "/" + ",".join(sorted({s.split("/")[1] for s in C["conc"].values() if "/" in s})) + "/*"
    FS = "/".join(LEAF.split("/")[:C["ver_i"]] + ["*"])          # versions of the task
    FD = "/".join(LEAF.split("/")[:C["ver_i"]] + ["**"])         # all leaves below the task
    LST = sorted(tree.closure(ref, C["ents"]))
    out = {}

    def add(name, f, data=False, group=None):
        out[name] = (f, data, group)

    add("Sid(LEAF)", lambda: Sid(LEAF))
    add("Sid(SEARCH)", lambda: Sid(SEARCH))
    for t in forced:
        add(f"Sid({t}:SEARCH)", lambda t=t: Sid(t + ":" + SEARCH))
    # a Sid object as argument (the caches are keyed on the argument: a Sid object and its bare string must not collide)
    for t in forced:
        add(f"Sid(Sid({t}:SEARCH))", lambda t=t: Sid(Sid(t + ":" + SEARCH)))
        add(f"Sid({t}:SEARCH).copy().path()", lambda t=t: Sid(t + ":" + SEARCH).copy().path())
    add("Sid(Sid(LEAF))", lambda: Sid(Sid(LEAF)))
    add("unf(Sid(S))", lambda: unfold_search(Sid(SEARCH)), group="unfS-default")
    add("unf(Sid(last-forced:S))", lambda: unfold_search(Sid(forced[-1] + ":" + SEARCH)))
    add("simple_typing(Sid(last-forced:S))", lambda: simple_typing(Sid(forced[-1] + ":" + SEARCH)))
    add("get_finder(str LEAF)", lambda: get_finder(LEAF))
    add("Sid(junk)", lambda: Sid("bla/bla"))
    add("Sid(LEAF?q)", lambda: Sid(LEAF + "?" + keys[-1] + "=" + other_last))
    add("Sid(LEAF?bad)", lambda: Sid(LEAF + "?" + keys[-1] + "=bogus"))
    add("Sid(fields)", lambda: Sid(fields=dict(d)))
    add("Sid(fields-short)", lambda: Sid(fields={k: d[k] for k in keys[:2]}))
    add("Sid(query)", lambda: Sid(query="&".join(f"{k}={v}" for k, v in list(d.items())[:3])))
    for pn, p in list(P.items()) + [("foreign", "/nowhere/at/all.ma")]:
        add(f"Sid(path={pn})", lambda p=p: Sid(path=p), group=f"path-{pn}-default")
        add(f"Sid(path={pn},None)", lambda p=p: Sid(path=p, config=None), group=f"path-{pn}-default")
        for c in names:
            add(f"Sid(path={pn},{c})", lambda p=p, c=c: Sid(path=p, config=c))
    add("path()", lambda: Sid(LEAF).path(), group="path-default")
    add("path(None)", lambda: Sid(LEAF).path(None), group="path-default")
    for c in names:
        add(f"path({c})", lambda c=c: Sid(LEAF).path(c), group=f"path-{c}")
        add(f"path(config={c})", lambda c=c: Sid(LEAF).path(config=c), group=f"path-{c}")
    add("std(S)", lambda: sid_to_dict(SEARCH))
    for t in forced[:2]:
        add(f"std(S,{t})", lambda t=t: sid_to_dict(SEARCH, t), group=f"std-{t}")
        add(f"std(S,_type={t})", lambda t=t: sid_to_dict(SEARCH, _type=t), group=f"std-{t}")
    add("stds(S)", lambda: sid_to_dicts(SEARCH))
    add(f"p2d({c1})", lambda: path_to_dict(P[c1]))
    for c in names:
        add(f"p2d({c1},config={c})", lambda c=c: path_to_dict(P[c1], config=c), group=f"p2d-{c1}-{c}")
        add(f"p2d({c1},None,{c})", lambda c=c: path_to_dict(P[c1], None, c), group=f"p2d-{c1}-{c}")
    add(f"p2d({c2},config={c2})", lambda: path_to_dict(P[c2], config=c2))
    # the type argument of path_to_dict, in every spelling (the entries of one group must agree, whichever came first)
    LT = ref.natural(LEAF)[0]
    add("p2d(P,T)", lambda: path_to_dict(P[c1], LT), group="p2d-typed")
    add("p2d(P,_type=T)", lambda: path_to_dict(P[c1], _type=LT), group="p2d-typed")
    add("p2d(P,T,c1)", lambda: path_to_dict(P[c1], LT, c1), group="p2d-typed")
    add("p2d(P,_type=T,config=c1)", lambda: path_to_dict(P[c1], _type=LT, config=c1), group="p2d-typed")
    add("p2d(Path(P),T)", lambda: path_to_dict(__import__("pathlib").Path(P[c1]), LT), group="p2d-typed")
    add("unf(U)", lambda: unfold_search(U), group="unf-default")
    # every way to bind the two flags of unfold_search (same value on different parameters, positional / keyword / mixed)
    for u in (None, False, True):
        for e in (None, False, True):
            g = "unf-" + ("uniq" if u else "") + ("extr" if e else "") if (u or e) else "unf-default"
            forms = []
            if u is not None and e is not None:
                forms = [("pos", lambda u=u, e=e: unfold_search(U, u, e)), ("kw", lambda u=u, e=e: unfold_search(U, do_uniquify=u, do_extrapolate=e)),
                         ("mix", lambda u=u, e=e: unfold_search(U, u, do_extrapolate=e)), ("kwrev", lambda u=u, e=e: unfold_search(U, do_extrapolate=e, do_uniquify=u))]
            elif u is not None:
                forms = [("pos", lambda u=u: unfold_search(U, u)), ("kw", lambda u=u: unfold_search(U, do_uniquify=u))]
            elif e is not None:
                forms = [("kw", lambda e=e: unfold_search(U, do_extrapolate=e))]
            for fn, f in forms:
                name = f"unf(U|{fn}|uniq={u},extr={e})"
                if name not in out:
                    add(name, f, group=g)
    # every configured alias in two differently spelled searches (what an alias stands for is configuration, not a resource that
    # the first search may use up)
    for a in sorted(ref.alias):
        s1 = "/".join(LEAF.split("/")[:-1] + [a])
        s2 = "/".join(LEAF.split("/")[:2]) + "/**/" + a
        add(f"unf(alias {a} #1)", lambda s1=s1: unfold_search(s1))
        add(f"unf(alias {a} #2)", lambda s2=s2: unfold_search(s2))
    add("unf(S)", lambda: unfold_search(SEARCH), group="unfS-default")
    add("unf(S,uniq=False)", lambda: unfold_search(SEARCH, do_uniquify=False), group="unfS-default")
    add("unf(S,uniq=True)", lambda: unfold_search(SEARCH, do_uniquify=True), group="unfS-uniq")
    add("unf(S,True)", lambda: unfold_search(SEARCH, True), group="unfS-uniq")
    add("simple_typing(S)", lambda: simple_typing(SEARCH))
    add("gpc()", lambda: get_path_config())
    for c in names:
        add(f"gpc({c})", lambda c=c: get_path_config(c))
    add("get_finder(LEAF)", lambda: get_finder(Sid(LEAF)))
    add("get_finder(LEAF,x)", lambda: get_finder(Sid(LEAF), "x"))
    add("match(S)", lambda: Sid(LEAF).match(SEARCH))
    add("match(no)", lambda: Sid(LEAF).match(SEARCH.replace("/*", "/zz/*")))
    for c in names:
        add(f"find_paths({c},FS)", lambda c=c: list(FindInPaths(c).find(FS)), data=True)
        add(f"find_paths({c},FD)", lambda c=c: list(FindInPaths(c).find(FD)), data=True)
    add("find_all(FS)", lambda: list(FindInAll().find(FS)), data=True)
    add("find_all(FD)", lambda: list(FindInAll().find(FD)), data=True)
    add("find_all(FS)-partial", lambda: next(FindInAll().find(FS), None) and "abandoned", data=True)
    add("find_paths(FD)-partial", lambda: next(FindInPaths().find(FD), None) and "abandoned", data=True)
    add("find_list(FD)", lambda: list(FindInList(LST).find(FD)))
    # one FindInList object that lives as long as the history (a new one after every reset), over a list that is not sorted:
    # what it answers, and in which order, must not depend on what it was asked before
    UNSORTED = list(reversed(LST))

    def shared_list():
        if "f" not in _SHARED:
            _SHARED["f"] = FindInList(list(UNSORTED))
        return _SHARED["f"]
    add("shared_list(FD)", lambda: list(shared_list().find(FD)))
    add("shared_list(FS)-one", lambda: shared_list().find_one(FS))
    # '>' searches: the unfolded (cached) list is handed to the Finder, which must not change it
    LAST = "/".join(LEAF.split("/")[:C["ver_i"]] + [">"] + LEAF.split("/")[C["ver_i"] + 1:])
    LASTS = "/".join(LEAF.split("/")[:C["ver_i"]] + [">", "*", "*"])
    add("unf(LAST)", lambda: unfold_search(LAST))
    add("unf(LASTS)", lambda: unfold_search(LASTS))
    add("find_list(LAST)", lambda: list(FindInList(LST).find(LAST)))
    add("find_list(LASTS)-one", lambda: FindInList(LST).find_one(LASTS))
    add("shared_list(LAST)", lambda: list(shared_list().find(LAST)))
    for c in names:
        add(f"find_paths({c},LAST)", lambda c=c: list(FindInPaths(c).find(LAST)), data=True)
        add(f"find_paths({c},LASTS)", lambda c=c: list(FindInPaths(c).find(LASTS)), data=True)
    add("find_all(LASTS)", lambda: list(FindInAll().find(LASTS)), data=True)
    add("get_last(version)", lambda: Sid(LEAF).get_last("version") if "version" in keys else None, data=True)
    add("find_one(FS)", lambda: FindInAll().find_one(FS), data=True)
    add("exists(X)", lambda: Sid(C["X"]).exists(), data=True)
    add("children(task)", lambda: Sid("/".join(LEAF.split("/")[:C["ver_i"]])).children(), data=True)
    # state level (constants under an existing version): same string through every Finder
    XV = "/".join(C["X"].split("/")[: C["ver_i"] + 1])
    ST = XV + "/*"
    EV = "/".join(LEAF.split("/")[: C["ver_i"] + 1]) + "/*"
    for c in names:
        add(f"find_paths({c},X-version/*)", lambda c=c: list(FindInPaths(c).find(ST)), data=True)
        add(f"find_paths({c},version/*)", lambda c=c: list(FindInPaths(c).find(EV)), data=True)
    add("find_all(X-version/*)", lambda: list(FindInAll().find(ST)), data=True)
    add("find_all(version/*)", lambda: list(FindInAll().find(EV)), data=True)
    add("find_list(version/*)", lambda: list(FindInList(LST + [EV[:-1] + "w"]).find(EV)))
    add("exists(X-state)", lambda: Sid(XV + "/" + C["X"].split("/")[C["ver_i"] + 1]).exists(), data=True)
    add("create(X)", lambda: WriteToPaths(c1).create(C["X"]), data=True)
    add("create(Y)", lambda: WriteToPaths(c1).create(C["Y"]), data=True)

    def remove(which):
        # data may also disappear (spil has no delete, the file system does): the version folder of X / Y is removed
        import shutil
        p = tree.entity_path(ref, prs[c1], "/".join(C[which].split("/")[: C["ver_i"] + 1]))
        existed = bool(p) and os.path.isdir(p[0])
        if existed:
            shutil.rmtree(p[0])
        return existed
    add("remove(X)", lambda: remove("X"), data=True)
    add("remove(Y)", lambda: remove("Y"), data=True)
    return out


def base_trees(C):
    """Materialise the base data: config[0] holds all entities, the last config one less."""
    from mc import env, tree
    env.clear_tree()
    for i, n in enumerate(C["names"]):
        ents = C["ents"] if i == 0 else C["ents"][:-1]
        tree.materialize(C["ref"], C["prs"][n], ents)


def set_data_state(C, state):
    """state: '' | 'X' | 'Y' | 'XY' (created through the reference rendering, in a fixed order)."""
    from mc import tree
    base_trees(C)
    extra = [C[k] for k in state]
    tree.materialize(C["ref"], C["prs"][C["names"][0]], extra)


def run_call(table, name, sort_lists=False):
    f = table[name][0]
    try:
        r = canon(f())
    except Exception as e:  # noqa
        r = ["EXC", type(e).__name__]
    r = json.loads(json.dumps(r))
    if sort_lists and isinstance(r, list) and r and isinstance(r[0], list):
        r = sorted(r, key=json.dumps)
    return r


def touch_first(C, first):
    from spil import Sid
    order = [first] + [n for n in C["names"] if n != first]
    for n in order:
        Sid(C["LEAF"]).path(n)
    from mc import env
    env.reset()


def fresh_main(argv):
    """python -m props.c13 fresh <first> <state> <name>  (new interpreter: one call, print canonical answer)"""
    from mc import env
    env.boot()
    first, state, name = argv
    C = _ctx()
    touch_first(C, first)
    table = calls(C)
    print("FRESH " + json.dumps(run_call(table, name, sort_lists=bool(state))))


def fresh_table(C, table, first, states):
    """One interpreter launch per (call, data state)."""
    out = {}
    jobs = []
    for st in states:
        for name, (f, data, g) in table.items():
            if st and not data:
                continue
            jobs.append((st, name))
    # group by state: the tree must be in that state while the launches of that state run
    for st in states:
        set_data_state(C, st)
        batch = [j for j in jobs if j[0] == st and not j[1].startswith(("create(", "remove("))]
        mutators = [j for j in jobs if j[0] == st and j[1].startswith(("create(", "remove("))]
        procs = []
        for j in batch + mutators:
            if j in mutators:  # a create event changes the tree: alone, on a freshly set tree
                while procs:
                    _reap(procs, out)
                set_data_state(C, st)
            while len(procs) >= 3:
                _reap(procs, out)
            p = subprocess.Popen([sys.executable, "-m", "props.c13", "fresh", first, st or "-", j[1]], stdout=subprocess.PIPE,
                                 stderr=subprocess.PIPE, text=True, env=os.environ, cwd=os.path.dirname(os.path.dirname(os.path.abspath(__file__))))
            procs.append((j, p))
        while procs:
            _reap(procs, out)
    return out


LAUNCHED = [0]     # interpreter launches made by this shard (0 when it took the table of another shard of its dimension)


def shared_fresh_table(C, table, first, states, sh):
    """Shards of the same dimension value (hash seed, import order, alphabet) share one fresh table: the first one to
    arrive computes it (one interpreter launch per call and data state), the others wait for its file."""
    import time
    shared = os.path.dirname(os.environ["VERIF_WORKDIR"])
    tag = "fresh-%s-%s-%s-%d" % (sh["hashseed"], first, sh.get("space", "full"), len(table))
    path, lock = os.path.join(shared, tag + ".json"), os.path.join(shared, tag + ".lock")
    try:
        fd = os.open(lock, os.O_CREAT | os.O_EXCL | os.O_WRONLY)
        os.close(fd)
        mine = True
    except FileExistsError:
        mine = False
    if mine:
        fresh = fresh_table(C, table, first, states)
        tmp = path + ".tmp"
        with open(tmp, "w") as f:
            json.dump([[k[0], k[1], v] for k, v in fresh.items()], f)
        os.replace(tmp, path)
        LAUNCHED[0] = len(fresh)
        return fresh
    t0 = time.time()
    while not os.path.exists(path):
        if time.time() - t0 > 900:
            raise RuntimeError("timed out waiting for the shared fresh table " + tag)
        time.sleep(0.2)
    with open(path) as f:
        return {(a, b): v for a, b, v in json.load(f)}


def _reap(procs, out):
    (st, name), p = procs.pop(0)
    so, se = p.communicate()
    line = [l for l in so.splitlines() if l.startswith("FRESH ")]
    if p.returncode != 0 or not line:
        raise RuntimeError(f"fresh interpreter failed for {name}/{st}: {se[-2000:]}")
    out[(st, name)] = json.loads(line[-1][6:])


def cache_state_hash():
    from mc import env
    h = 0
    for n, c in sorted(env.caches().items()):
        try:
            h = zlib.crc32((n + c.cache_info()).encode(), h) if isinstance(c.cache_info(), str) else zlib.crc32((n + repr(c.cache_info())).encode(), h)
        except Exception:  # noqa
            pass
    return h


def data_state_after(hist):
    st = ""
    for n in hist:
        if n == "create(X)" and "X" not in st:
            st += "X"
        if n == "create(Y)" and "Y" not in st:
            st += "Y"
        if n == "remove(X)":
            st = st.replace("X", "")
        if n == "remove(Y)":
            st = st.replace("Y", "")
    return "".join(sorted(st))


def run_history(C, table, hist, capacity, fresh, first):
    """Execute hist without reset in between; return list of violations for the LAST call."""
    from mc import env
    env.set_cache_capacity(capacity)
    env.reset()
    if any(table[n][1] for n in hist):
        base_trees(C)
    out = []
    st = ""
    for i, n in enumerate(hist):
        last = i == len(hist) - 1
        st_before = st
        r = run_call(table, n, sort_lists=bool(st_before) and table[n][1])
        st = data_state_after(hist[: i + 1])
        if last:
            key = (st_before if table[n][1] else "", n)
            exp = fresh[key]
            if n.startswith("create(") and st_before == st:
                # creating what an earlier call created: SpilException is the documented answer
                exp = ["EXC", "SpilException"]
            if n.startswith("remove("):
                exp = (st_before != st)      # True iff there was something to remove
            if n.startswith("find_one(") and st_before and isinstance(r, list) and r[:1] == ["Sid"]:
                # which element comes first after a data change is the directory's creation order: any found Sid is right
                allkey = (st_before, n.replace("find_one(", "find_all("))
                if allkey in fresh and r in fresh[allkey]:
                    exp = r
            if r != exp:
                out.append(dict(signature=classify(hist, n, r, exp), observed=r, expected=exp))
    env.set_cache_capacity(None)
    return out


def classify(hist, n, r, exp):
    if isinstance(r, list) and r[:1] == ["EXC"] and r[1] == "TypeError" and "config=" in n:
        return "keyword-argument-rejected-by-cache-wrapper"
    prev = [h for h in hist[:-1]]
    fam = n.split("(")[0]
    same_fam = [p for p in prev if p.split("(")[0] == fam]
    if same_fam and ("=" in n or "config" in n or "," in n):
        return f"stale-answer/{fam}/served-from-call-with-other-argument-value"
    return f"answer-depends-on-history/{fam}"


def plan(tier, seed):
    seeds = [0, 1] if tier == "quick" else [0, 1, 2, 3, 4, 5, 6, 7]
    extra = (seed * 7919 + 11) % 100000
    if extra not in seeds:
        seeds.append(extra)
    shards = []
    for hs in seeds:
        for first in ("local", "server"):
            if tier == "quick":
                if (hs, first) == (seeds[0], "local"):
                    # the full alphabet, both capacities, in three parts
                    for i in range(8):
                        shards.append({"hashseed": hs, "first": first, "depth": 2, "part": [i, 8], "capacities": [None, 1], "space": "full", "interleaved": True})
                else:
                    # other hash seeds / import order: pairs over the core alphabet (one call per group of equivalent forms)
                    shards.append({"hashseed": hs, "first": first, "depth": 2, "part": [0, 1], "capacities": [None], "space": "core"})
            else:
                shards.append({"hashseed": hs, "first": first, "depth": 2, "part": [0, 1], "capacities": [None, 1, 2], "space": "full", "interleaved": (hs, first) == (seeds[0], "local")})
    if tier == "thorough":
        for hs, first in ((0, "local"), (1, "server")):
            for i in range(7):
                shards.append({"hashseed": hs, "first": first, "depth": 3, "part": [i, 7], "capacities": [None, 1]})
    return {"shards": shards}


def run_shard(sh):
    C = _ctx()
    first = sh["first"] if sh["first"] in C["names"] else C["names"][0]
    touch_first(C, first)
    table = calls(C)
    names = list(table)
    rec = Recorder(0, 1, sh["seed"])
    states = ["", "X", "Y", "XY"]
    if sh.get("space") == "core":
        # other hash seeds / import order: one call per group of equivalent forms, no data-changing events
        seen_g, core = set(), {}
        for n, v in table.items():
            if n.startswith(("create(", "remove(")):
                continue
            if v[2] is None or v[2] not in seen_g:
                core[n] = v
                seen_g.add(v[2])
        table, names, states = core, list(core), [""]
    fresh = shared_fresh_table(C, table, first, states, sh)
    base_trees(C)
    from mc import env
    # conformance: reset == fresh
    nconf = 0
    for n in names:
        if n.startswith(("create(", "remove(")):
            continue
        v = run_history(C, table, [n], None, fresh, first)
        nconf += 1
        for x in v:
            rec.violation("reset-differs-from-fresh-interpreter/" + x["signature"], "history",
                          {"hist": [n], "capacity": None, "first": first}, x["observed"], x["expected"])
    # positional == keyword forms (on the fresh table)
    groups = {}
    for n, (f, data, g) in table.items():
        if g:
            groups.setdefault(g, []).append(n)
    for g, ns in groups.items():
        vals = {json.dumps(fresh[("", n)]) for n in ns}
        if len(vals) > 1:
            sig = "positional-and-keyword-forms-differ"
            if any(fresh[("", n)][:1] == ["EXC"] for n in ns if isinstance(fresh[("", n)], list)):
                sig = "keyword-argument-rejected-by-cache-wrapper"
            rec.violation(sig, "history", {"hist": [ns[-1]], "capacity": None, "first": first, "group": ns},
                          {n: fresh[("", n)] for n in ns}, "equal answers")
    seen_states = set()
    depth = sh["depth"]
    pi, pn = sh["part"]
    space = names
    if depth == 3 or sh.get("space") == "core":
        # triples over the core alphabet: one representative per group of equivalent call forms
        seen_g, space = set(), []
        for n in names:
            g = table[n][2]
            if g is None or g not in seen_g:
                space.append(n)
                seen_g.add(g)
    histories = itertools.product(space, repeat=depth)
    if sh.get("interleaved"):
        # data changing between calls: m1, q, m2, q' for all mutators (create / remove) and all data-dependent calls
        muts = [n for n in names if n.startswith(("create(", "remove("))]
        dcalls = [n for n in names if table[n][1] and n not in muts and "partial" not in n]
        histories = itertools.chain(histories, ([m1, q1, m2, q2] for m1 in muts for q1 in dcalls for m2 in muts for q2 in dcalls))
    for hi, hist in enumerate(histories):
        if hi % pn != pi:
            continue
        if depth == 3 and (hist[0] == hist[1] == hist[2]):
            continue
        for cap in sh["capacities"]:
            v = run_history(C, table, list(hist), cap, fresh, first)
            seen_states.add(cache_state_hash())
            rec.transitions += len(hist)
            rec.traces += 1
            rec.case("history-len-%d" % len(hist), True, sample={"hist": list(hist), "capacity": cap})
            for x in v:
                rec.violation(x["signature"], "history", {"hist": list(hist), "capacity": cap, "first": first}, x["observed"], x["expected"])
            if len(hist) == 4:
                break     # the interleaved family runs at the default capacity only
    # capacity run: more distinct arguments than the caches hold, then every call again
    if pi == 0:
        from spil import Sid
        from spil.sid.pathops.fs_resolver import path_to_dict
        ncap = 5000 if sh["tier"] == "thorough" else 600
        for cap in ([None] if sh["tier"] == "thorough" else [64]):
            env.set_cache_capacity(cap)
            base_trees(C)
            for n in names:
                if n.startswith(("create(", "remove(")):
                    continue
                # every call is asked right after the overflow, alone (the replay does exactly this)
                env.reset()
                for i in range(ncap):
                    Sid(f"{C['LEAF'].split('/')[0]}/x{i}")
                    Sid(C["LEAF"] + f"?bogus={i}")
                    path_to_dict(f"/nowhere/{i}.ma")
                r = run_call(table, n)
                rec.transitions += 1
                if r != fresh[("", n)]:
                    rec.violation("answer-changes-after-cache-overflow/" + n.split("(")[0], "overflow", {"n": ncap, "capacity": cap, "call": n, "first": first}, r, fresh[("", n)])
            rec.case("overflow-run", True)
            env.set_cache_capacity(None)
    rec.states = len(seen_states)
    rec.extra = {"hashseed": sh["hashseed"], "first": first, "depth": depth, "alphabet": len(names), "reset_eq_fresh_checked": nconf,
                 "fresh_launches": LAUNCHED[0], "fresh_digest": {n: zlib.crc32(json.dumps(v).encode()) for (st, n), v in fresh.items() if st == ""},
                 "fresh_values": {n: v for (st, n), v in fresh.items() if st == ""}}
    res = rec.result()
    for sig, lst in res["violations"].items():
        for v in lst:
            v["env"] = {"hashseed": sh["hashseed"]}
    return res


def post(m, results, tier, seed):
    """fresh tables must be identical across hash seeds and import orders (including list order)."""
    def diff(ref_e, e, kind):
        for n, h in e["fresh_digest"].items():
            if ref_e["fresh_digest"].get(n) != h:
                sig = f"fresh-answer-depends-on-{kind}/" + n.split("(")[0]
                a, b = ref_e["fresh_values"][n], e["fresh_values"][n]
                if isinstance(a, list) and isinstance(b, list) and sorted(map(json.dumps, a)) == sorted(map(json.dumps, b)):
                    sig += "/order-only"
                if sig not in m["violations"]:
                    m["violations"][sig] = [{"signature": sig, "kind": "seeds", "case": {"call": n, "a": [ref_e["hashseed"], ref_e["first"]], "b": [e["hashseed"], e["first"]]},
                                             "observed": b, "expected": a, "note": "", "env": {"hashseed": e["hashseed"]}}]
                m["viol_count"][sig] += 1
    ex = [r["extra"] for r in results if r["extra"]["depth"] == 2]
    by_first, by_seed = {}, {}
    for e in ex:
        by_first.setdefault(e["first"], []).append(e)
        by_seed.setdefault(e["hashseed"], []).append(e)
    for lst in by_first.values():
        for e in lst[1:]:
            diff(lst[0], e, "hash-seed")
    for lst in by_seed.values():
        for e in lst[1:]:
            diff(lst[0], e, "import-order")
    m["extra"] = [{"dimension_values": len(ex), "alphabet": results[0]["extra"]["alphabet"],
                   "hash_seeds": sorted(by_seed), "first_touched": sorted(by_first),
                   "fresh_interpreter_launches": sum(r["extra"]["fresh_launches"] for r in results),
                   "reset_eq_fresh_checked": sum(r["extra"]["reset_eq_fresh_checked"] for r in results)}]


def replay_case(kind, case):
    C = _ctx()
    if kind == "seeds":
        # re-derive both fresh answers in new interpreters with the two hash seeds
        out = []
        vals = []
        base_trees(C)        # the fresh interpreters answer on the base data (state ''), as they did when the tables were built
        for hs, first in (case["a"], case["b"]):
            e = dict(os.environ, PYTHONHASHSEED=str(hs))
            p = subprocess.run([sys.executable, "-m", "props.c13", "fresh", first, "-", case["call"]], capture_output=True, text=True, env=e,
                               cwd=os.path.dirname(os.path.dirname(os.path.abspath(__file__))))
            line = [l for l in p.stdout.splitlines() if l.startswith("FRESH ")]
            vals.append(json.loads(line[-1][6:]))
        if vals[0] != vals[1]:
            n = case["call"]
            same_order = case["a"][1] == case["b"][1]
            sig = ("fresh-answer-depends-on-hash-seed/" if same_order else "fresh-answer-depends-on-import-order/") + n.split("(")[0]
            if isinstance(vals[0], list) and sorted(map(json.dumps, vals[0])) == sorted(map(json.dumps, vals[1])):
                sig += "/order-only"
            out.append(dict(signature=sig, observed=vals[1], expected=vals[0]))
        return out
    first = case.get("first", C["names"][0])
    touch_first(C, first)
    table = calls(C)
    if kind == "overflow":
        return [dict(signature="answer-changes-after-cache-overflow/" + case["call"].split("(")[0], observed="(replay re-runs the overflow)", expected="")] \
            if _overflow_differs(C, table, case, first) else []
    hist = case["hist"]
    need = {("", n) for n in hist} | {(s, hist[-1]) for s in ["", "X", "Y", "XY"] if table[hist[-1]][1]}
    sub = {n: table[n] for n in set(hist) | set(case.get("group", []))}
    fresh = fresh_table(C, sub, first, ["", "X", "Y", "XY"])
    base_trees(C)
    if "group" in case:
        vals = {json.dumps(fresh[("", n)]) for n in case["group"]}
        if len(vals) > 1:
            sig = "positional-and-keyword-forms-differ"
            if any(isinstance(fresh[("", n)], list) and fresh[("", n)][:1] == ["EXC"] for n in case["group"]):
                sig = "keyword-argument-rejected-by-cache-wrapper"
            return [dict(signature=sig, observed={n: fresh[("", n)] for n in case["group"]}, expected="equal")]
        return []
    v = run_history(C, table, hist, case.get("capacity"), fresh, first)
    if len(hist) == 1:
        for x in v:
            x["signature"] = "reset-differs-from-fresh-interpreter/" + x["signature"]
    return v


def _overflow_differs(C, table, case, first):
    from mc import env
    from spil import Sid
    from spil.sid.pathops.fs_resolver import path_to_dict
    fresh = fresh_table(C, {case["call"]: table[case["call"]]}, first, [""])
    base_trees(C)
    env.set_cache_capacity(case["capacity"])
    env.reset()
    for i in range(case["n"]):
        Sid(f"{C['LEAF'].split('/')[0]}/x{i}")
        Sid(C["LEAF"] + f"?bogus={i}")
        path_to_dict(f"/nowhere/{i}.ma")
    r = run_call(table, case["call"])
    env.set_cache_capacity(None)
    return r != fresh[("", case["call"])]


def coverage(m, tier, seed):
    return {"exhaustive": True, "bounds": {"history_length": 3 if tier == "thorough" else 2, "capacities": [None, 1] if tier == "quick" else [None, 1, 2]},
            "dimensions": m["extra"]}


if __name__ == "__main__":
    if sys.argv[1] == "fresh":
        a = sys.argv[2:5]
        if a[1] == "-":
            a[1] = ""
        fresh_main(a)
