"""C11 - all Finders give the same answer for the same data.

E1 over universes x junk injections x searches: FindInPaths(local) == FindInPaths(server) == FindInList(corresponding
list) == reference store (path-backed), FindInAll == reference store with the constants-backed levels; junk never
changes an answer nor makes a search fail.
"""
from __future__ import annotations
import os
from mc.rec import Recorder
from mc import searchgen, worlds

ID = "C11"
LEVEL = "exploration"
RULE = ("inputs = (universe, junk variant, search): universes generated from the configuration (names sharing prefixes and "
        "containing '.', '+', '-', several versions / tasks / states / extension sets, two basetypes), each materialised as "
        "list + LOCAL tree + SERVER tree; junk variants = none, each junk kind injected into every directory of the tree "
        "(misnamed separator, unknown extension, backup suffix, desynchronised repeated field, stray folder, stray file, "
        "non-hidden sidecar-like file, hidden sidecar, hidden file, file of another type's shape), all kinds at once; "
        "searches = star subsets + <=k edits of the C07 menu incl. '>' on one base per type drawn from the universe. "
        "distinct = distinct (universe, junk, search); non-trivial = some Finder returns something.")
ASSUMPTIONS = ["constants-backed levels follow FindInConstants as documented (literal parent is not checked on disk)",
               "the unfolding of the search is taken from spil (C07 owns it)"]

JUNK_KINDS = ["misnamed-separator", "unknown-extension", "backup-suffix", "desynchronised-field", "stray-folder", "stray-file",
              "sidecar-like", "hidden-sidecar", "hidden-file", "other-type-shape", "trailing-whitespace"]


def junk_for(root, kinds):
    """-> list of (relative path, kind 'f'|'d') for every directory under root."""
    out = []
    for d, ds, fs in os.walk(root):
        rel = os.path.relpath(d, root)
        rel = "" if rel == "." else rel
        J = lambda n: os.path.join(rel, n)
        first_file = sorted(fs)[0] if fs else None
        first_dir = sorted(ds)[0] if ds else None
        for k in kinds:
            if k == "trailing-whitespace":
                # a valid name followed by a blank / a line feed is another name (as in C01: 'ma\n' is not 'ma')
                if first_file:
                    stem, _, ext = first_file.rpartition(".")
                    swap = {"ma": "mb", "mb": "ma", "mov": "mp4", "mp4": "mov", "abc": "vdb", "vdb": "abc"}.get(ext, ext)
                    out += [(J(first_file + " "), "f"), (J(first_file + "\n"), "f"), (J(stem + "." + swap + " "), "f")]
                if first_dir:
                    out += [(J(first_dir + " "), "d"), (J(" " + first_dir), "d")]
                continue
            if k == "stray-folder":
                out.append((J("stray_folder"), "d"))
            elif k == "stray-file":
                out.append((J("stray.txt"), "f"))
            elif k == "hidden-file":
                out.append((J(".hidden"), "f"))
            elif first_file:
                stem, _, ext = first_file.rpartition(".")
                if k == "misnamed-separator" and "_" in stem:
                    out.append((J(stem.replace("_", "-", 1) + "." + ext), "f"))
                elif k == "unknown-extension":
                    out.append((J(stem + ".zzz"), "f"))
                elif k == "backup-suffix":
                    out.append((J(first_file + ".bak"), "f"))
                    out.append((J(first_file + "~"), "f"))
                elif k == "desynchronised-field" and "_" in stem:
                    head, _, tail = stem.partition("_")
                    out.append((J(head + "X_" + tail + "." + ext), "f"))
                    parts = stem.split("_")
                    if len(parts) > 2:
                        parts[1] = "other"
                        out.append((J("_".join(parts) + "." + ext), "f"))
                elif k == "sidecar-like":
                    out.append((J(stem + ".data.json"), "f"))
                elif k == "hidden-sidecar":
                    out.append((J("." + stem + ".data.json"), "f"))
                elif k == "other-type-shape":
                    out.append((J(stem + ".mov"), "f"))
                    out.append((J(stem + ".abc"), "f"))
                    out.append((J(os.path.join("OUTPUT", first_file)), "f"))
            elif first_dir and k in ("unknown-extension", "sidecar-like", "hidden-sidecar"):
                out.append((J({"unknown-extension": first_dir + ".zzz", "sidecar-like": first_dir + ".data.json",
                               "hidden-sidecar": "." + first_dir + ".data.json"}[k]), "f"))
    return out


def conforming_filtered(W, junk):
    """Junk must not conform: a generated name that any path configuration resolves to a Sid is a valid entity
    (e.g. 'stray_folder' at the asset level, '<stem>.mov' inside OUTPUT) and is dropped from the junk."""
    from spil import Sid
    out = []
    for rel, kind in junk:
        ok = True
        for n in W.names:
            try:
                p = os.path.join(W.prs[n].root(), rel)
                x = Sid(path=p, config=n)
                # conforming = the reference rendering of the Sid it resolves to is this very path (a resolution that does not
                # own the path - C06's subject - does not make the name a valid entity)
                if x and W.prs[n].render(x.type, x.fields) == p:
                    ok = False
            except Exception:  # noqa  (C06 owns resolution failures)
                pass
        if ok:
            out.append((rel, kind))
    return out


def searches(ref, W, tier):
    k = 2 if tier == "thorough" else (0 if tier == "c20" else 1)
    types = sorted({ref.natural(s)[0] for s in W.leaves})
    # bases drawn from the universe itself so that searches hit existing entities
    seen = set()
    for typ in ref.types:
        cands = [p for p in sorted(W.store.paths) if ref.natural(p)[0] == typ]
        cands += [s for s in W.leaves if ref.natural(s)[0] == typ]
        if not cands:
            # levels without path (constants-backed, or without any source): a prefix of an existing entity
            from mc import datagen
            cands = [p for p in datagen.closure_list(ref, W.leaves) if ref.natural(p)[0] == typ]
        if not cands:
            continue
        segs = cands[0].split("/")
        n = len(segs)
        yield "/".join(segs)
        for mask in range(1, 2 ** n):
            if tier == "c20" and n > 5 and 2 < bin(mask).count("1") < n - 1:
                continue   # configuration family: at most 2 or at least n-1 stars on long types
            yield "/".join("*" if mask >> i & 1 else segs[i] for i in range(n))
        se = searchgen.segment_edits(ref, typ, segs, True, True)
        qm = searchgen.query_menu(ref, typ, segs)
        menu = [("e", e) for e in se] + [("q", q) for q in qm]
        import itertools
        for r in range(1, k + 1):
            for combo in itertools.combinations(menu, r):
                ed = [x[1] for x in combo if x[0] == "e"]
                qs = [x[1] for x in combo if x[0] == "q"]
                if not searchgen.compatible(ed) or len({q.split("=")[0] for q in qs}) != len(qs):
                    continue
                yield searchgen.build(segs, ed, qs)
    yield from cross_basetype_last(ref, W)
    # constants-backed and state levels under existing and non-existing parents
    for p in sorted(W.store.paths)[:: max(1, len(W.store.paths) // 25)]:
        yield p + "/*"
        yield p + "/>"
    yield "*"
    yield "*/*"
    yield "*/*/*"


def cross_basetype_last(ref, W):
    """'>' searches whose typed forms belong to several basetypes (the type position is '*' or the list of all its values):
    one answer list over all of them, in one order."""
    if not W.leaves:
        return
    proj = W.leaves[0].split("/")[0]
    codes = sorted({s.split("/")[1] for s in W.leaves if "/" in s})
    # '>' in the project position: every basetype's typed forms stay in one "last" group
    for T in ["*"] + ([",".join(codes)] if len(codes) > 1 else []):
        for n in range(2, ref.maxlen + 1):
            yield "/".join([">", T] + ["*"] * (n - 2))
    for T in ["*", ">"] + ([",".join(codes)] if len(codes) > 1 else []):
        for n in range(3, ref.maxlen + 1):
            for i in range(2, n):
                if T == ">" and n > 4:
                    continue
                s = "/".join([proj, T] + ["*"] * (i - 2) + [">"] + ["*"] * (n - 1 - i))
                yield s
                # an optional filter on the '>' position: it replaces the '>' in the typed forms that own the key only
                for typ in ref.types:
                    ks = ref.keys(typ)
                    if len(ks) == n:
                        vals = [v for v in ref.accepted(typ, i, ref.literals() + ref.digit_instances()) if v not in ("*", ">")]
                        if vals:
                            yield s + "?" + ks[i] + "=~" + vals[-1]


def run_finder(f, s):
    try:
        r = list(f.find(s, as_sid=False))
    except Exception as e:  # noqa
        from spil import SpilException
        if isinstance(e, SpilException):
            return "SPILEXC", None
        return "EXC:" + type(e).__name__ + ":" + str(e)[:80], None
    return "ok", r


def check_case(ref, W, fs, s, baseline=None):
    """-> (violations, class, answers)"""
    from spil import SpilException
    from spil.sid.read.tools import unfold_search
    out = []

    def bad(sig, obs, exp):
        out.append(dict(signature=sig, observed=obs, expected=exp))

    try:
        typed = [(u.type, u.string) for u in unfold_search(s)]
        spilexc = False
    except SpilException:
        typed, spilexc = [], True
    # what the expression denotes is taken from the reference unfolding (mc.ref.search, the oracle of C07) wherever that is
    # unambiguous, not from the implementation's unfold_search: a Finder that searches fewer typed forms answers differently
    from mc.ref import search as rs
    if not spilexc:
        typed = rs.denoted_typed(ref, s, typed)
    ans = {}
    for name, f in fs.items():
        st, r = run_finder(f, s)
        if st == "SPILEXC":
            if not spilexc:
                bad(f"unexpected-SpilException/{_kind(name)}", s, "a result")
            ans[name] = None
            continue
        if st != "ok":
            bad(f"exception/{st.split(':')[1]}/{_kind(name)}", st, "a result")
            ans[name] = None
            continue
        if len(set(r)) != len(r):
            bad(f"duplicates/{_kind(name)}", r[:6], "unique")
        ans[name] = set(r)
    if spilexc or any(v is None for v in ans.values()):
        return out, "exception-shape", ans
    if baseline is None:
        # the same data, the same search, asked again through every Finder in the opposite order, nothing reset in
        # between: what one Finder did with the search must not change what another one answers
        for name in reversed(list(fs)):
            st2, r2 = run_finder(fs[name], s)
            if st2 != "ok" or set(r2) != ans[name]:
                bad(f"answer-changes-when-asked-again-after-other-finders/{_kind(name)}", [st2, sorted(set(r2 or []))[:4]], sorted(ans[name])[:4])
                break
    # Finder.find hands a clean, typed, non-search Sid to the Finder as is (FindInAll always unfolds)
    from spil import Sid
    sid = Sid(s)
    typed_direct = typed
    if sid and not sid.is_search() and not W.ref.is_search_text(s) and "?" not in s and s.split("/")[-1] not in W.ref.alias:
        typed_direct = [(sid.type, sid.string)]
    exp_p, same_pos = W.store.do_find("paths", typed_direct)
    exp_a, _ = W.store.do_find("all", typed)
    exp_l, _ = W.store.do_find("list", typed_direct, W.store.list_for_paths())
    last = any(">" in st.split("/") for _, st in typed)
    if last and (not same_pos or not all(">" in st.split("/") for _, st in typed)):
        # no reference answer is defined for this shape (C09 speaks of '>' at one position of every unfolded form); the Finders
        # still have to agree with each other on it
        names = W.names
        # (compared on the types that only the file system serves: a constants-backed level is FindInAll's alone)
        po = lambda S: {e for e in S if W.ref.natural(e)[0] not in W.sources}
        if not (po(ans[names[0]]) == po(ans[names[-1]]) == po(ans["all"]) and ans["all"] == ans.get("all:named", ans["all"])):
            bad("finders-disagree/last-lost-in-some-typed-forms", {k: sorted(v)[:3] for k, v in ans.items()}, "one answer")
        return out, "last-not-at-one-common-position(outside statement)", ans
    names = W.names

    def held_by_both(S):
        # "holding the same entities": an entity whose values a configuration's own patterns refuse cannot be held by it
        out_ = set()
        for e in S:
            t, f = W.ref.natural(e)
            if not t or all((not W.prs[n].has_path(t)) or W.prs[n].render(t, f) is not None for n in (names[0], names[-1])):
                out_.add(e)
        return out_
    if held_by_both(ans[names[0]]) != held_by_both(ans[names[-1]]):
        bad("local-and-server-differ", [sorted(ans[names[0]] - ans[names[-1]])[:4], sorted(ans[names[-1]] - ans[names[0]])[:4]], "equal")
    if ans[names[0]] != exp_p:
        bad("paths-differ-from-reference" + ("/last" if last else ""), [sorted(ans[names[0]] - exp_p)[:4], sorted(exp_p - ans[names[0]])[:4]], sorted(exp_p)[:4])
    # FindInList over the corresponding list == FindInPaths, restricted to types that have a path
    lst = {e for e in ans["list"]}
    if lst != exp_l:
        bad("list-differs-from-reference" + ("/last" if last else ""), [sorted(lst - exp_l)[:4], sorted(exp_l - lst)[:4]], sorted(exp_l)[:4])
    if not last:
        from mc.ref.store import ref_glob
        typed_with_path = [(t, st) for t, st in typed_direct if W.prs[names[0]].has_path(t)]
        lst_r = {e for e in lst if any(ref_glob(st, e) for _, st in typed_with_path)}
        if lst_r != ans[names[0]] and lst == exp_l and ans[names[0]] == exp_p:
            extra = lst_r - ans[names[0]]
            types = {t for t, _ in typed_with_path}
            blind = extra and not (ans[names[0]] - lst_r) and all(W.ref.natural(e)[0] not in types for e in extra)
            bad("list-and-paths-disagree" + ("/list-matches-entries-of-sibling-types" if blind else ""), [sorted(lst_r - ans[names[0]])[:4], sorted(ans[names[0]] - lst_r)[:4]], "equal on path-backed types")
    if ans["all"] != exp_a:
        srcs = {(W.sources.get(t) or {}).get("key", "paths") for t, _ in typed}
        bad("all-differs-from-reference" + ("/last" if last else "") + ("/typed-searches-served-by-different-sources" if last and len(srcs) > 1 else ""), [sorted(ans["all"] - exp_a)[:4], sorted(exp_a - ans["all"])[:4]], sorted(exp_a)[:4])
    if "all:named" in ans and ans["all:named"] != ans["all"] and ans["all"] == exp_a:
        bad("all-differs-from-reference/finder-created-with-a-configuration-name" + ("/last" if last else ""),
            [sorted(ans["all:named"] - exp_a)[:4], sorted(exp_a - ans["all:named"])[:4]], sorted(exp_a)[:4])
    if baseline is not None:
        for name in fs:
            if baseline.get(name) is not None and ans[name] != baseline[name]:
                bad(f"junk-changes-result/{_kind(name)}", [sorted(ans[name] - baseline[name])[:4], sorted(baseline[name] - ans[name])[:4]], "unchanged")
    cls = "nonempty" if any(ans.values()) else "empty"
    return out, cls, ans


def _kind(name):
    return name.split(":")[0] if name.split(":")[0] in ("list", "all") else "paths"


def variants(tier):
    v = [("none", [])] + [(k, [k]) for k in JUNK_KINDS] + [("all-kinds", list(JUNK_KINDS))]
    return v


def plan(tier, seed):
    from mc.ref.model import Conf  # noqa (no spil needed for the plan)
    unis = ["full", "one-basetype", "sparse"] + (["names-only", "dense-versions", "empty"] if tier == "thorough" else [])
    shards = []
    for u in unis:
        for (vn, kinds) in variants(tier):
            if tier == "quick" and u != "sparse" and vn not in ("none", "all-kinds"):
                continue
            deep = tier == "thorough" and u == "sparse" and vn in ("none", "all-kinds")
            parts = 8 if deep else 1
            for pi in range(parts):
                shards.append({"universe": u, "variant": vn, "kinds": kinds, "deep": deep, "part": [pi, parts]})
    for i, sh in enumerate(shards):
        sh["first_index"] = (0, -1)[i % 2]       # which path configuration the shard loads first (first / last configured)
    return {"shards": shards}


def run_shard(sh):
    from mc.ref.model import Conf
    from mc.ref import store as rstore
    ref = Conf()
    U = worlds.universes(ref, sh["tier"])
    W = worlds.World(ref, U[sh["universe"]], sh["universe"])
    first = worlds.touch_first(W.names[sh.get("first_index", 0)])
    errs = rstore.bind_sources(W.sources, ref)
    if errs:
        raise RuntimeError("source description does not match the routing code: " + "; ".join(errs))
    rec = Recorder(0, 1, sh["seed"])
    W.materialize()
    fs = W.finders()
    S = []
    seen = set()
    import zlib
    pi, pn = sh.get("part", [0, 1])
    stier = sh["tier"] if (sh["tier"] != "thorough" or sh.get("deep")) else "quick"    # k=2 only on the deep shards
    for s in searches(ref, W, stier):
        if s not in seen:
            seen.add(s)
            if zlib.crc32(s.encode()) % pn == pi:
                S.append(s)
    base = {}
    from mc import env
    for s in S:
        env.reset()
        v, cls, ans = check_case(ref, W, fs, s)
        base[s] = ans
        if sh["variant"] == "none":
            rec.case(cls, cls == "nonempty", sample=[sh["universe"], "none", s])
            for x in v:
                rec.violation(x["signature"], "search", [sh["universe"], [], s], x["observed"], x["expected"])
    if sh["variant"] != "none":
        junk = []
        for n in W.names:
            junk = junk_for(W.prs[n].root(), sh["kinds"])
            break
        junk = conforming_filtered(W, junk)
        W.materialize(junk)
        for s in S:
            env.reset()
            v, cls, ans = check_case(ref, W, fs, s, baseline=base[s])
            rec.case(cls, cls == "nonempty", sample=[sh["universe"], sh["variant"], s])
            for x in v:
                # everything else equals the junk-free answer, which the 'none' variant of this universe judges
                if x["signature"].startswith(("junk-changes-result", "exception", "unexpected-SpilException", "duplicates")):
                    rec.violation(x["signature"] + "/with-junk", "search", [sh["universe"], sh["kinds"], s], x["observed"], x["expected"])
        rec.extra = {"junk_entries": len(junk)}
    rec.extra.update({"universe": sh["universe"], "entities": len(W.leaves), "existing_path_backed": len(W.store.paths), "searches": len(S), "first_loaded": first})
    return worlds.tag_first(rec.result(), first)


def replay_case(kind, case):
    from mc.ref.model import Conf
    from mc import env
    ref = Conf()
    worlds.touch_first()
    uni, kinds, s = case
    U = worlds.universes(ref, "thorough")
    W = worlds.World(ref, U[uni], uni)
    W.materialize()
    fs = W.finders()
    env.reset()
    v, cls, ans = check_case(ref, W, fs, s)
    if not kinds:
        return v
    junk = conforming_filtered(W, junk_for(W.prs[W.names[0]].root(), kinds))
    W.materialize(junk)
    env.reset()
    v2, _, _ = check_case(ref, W, fs, s, baseline=ans)
    v2 = [x for x in v2 if x["signature"].startswith(("junk-changes-result", "exception", "unexpected-SpilException", "duplicates"))]
    for x in v2:
        x["signature"] += "/with-junk"
    return v2


def coverage(m, tier, seed):
    return {"bounds": {"k": "2 on the sparse universe (junk none / all kinds), 1 elsewhere" if tier == "thorough" else 1}, "exhaustive": True, "worlds": m["extra"][:12]}
