"""C16 - a Getter returns one record per Sid its Finder finds, in the same order.

E1 over generated trees with attribute data: searches (C07 family) x attribute lists x three sid_encode functions, on
GetFromPaths(local/server) against FindInPaths of the same configuration, and on GetFromAll; get_one / get_data / get_attr.
"""
from __future__ import annotations
import json
from mc.rec import Recorder
from mc import worlds, tree

ID = "C16"
LEVEL = "exploration"
RULE = ("inputs = (tree, search, attributes, sid_encode): trees = generated universes materialised with sidecar data on every "
        "2nd / 3rd entity (incl. sidecars shared by files that differ by extension, data on folders, no data at all); "
        "searches = star subsets + <=k edits of the C07 menu (incl. overlapping comma alternatives 'x,*') on bases from the "
        "tree; attributes in {None, ['a'], ['a','zz'], ['sid'], ['sid','a'], ['zz']}; sid_encode in {str, uri, returns None}. "
        "distinct = distinct (tree, search); non-trivial = the Finder finds at least one Sid."
        " Added: GetFromAll() asked again after GetFromAll(<configuration name>) objects were used first, from cold singletons.")
ASSUMPTIONS = ["an empty attributes list is outside the alphabet (falsy: treated like None by the implementation)",
               "get order is compared with find order of the same process on the unchanged tree"]

ATTRS = [None, ["a"], ["a", "zz"], ["sid"], ["sid", "a"], ["zz"]]
ENCS = ["str", "uri", "none"]


def enc_fn(name):
    return {"str": str, "uri": (lambda x: x.uri), "none": (lambda x: None)}[name]


def data_for(leaves, closure, mode):
    out = {}
    if mode == "none":
        return out
    ents = sorted(set(leaves) | set(closure))
    for i, s in enumerate(ents):
        if i % (2 if mode == "dense" else 3) == 0:
            out[s] = {"a": i, "b": "b%d" % i, "s": s, "n": None, "u": "été"}
    return out


def record(W, datamap, cfg, uri, s, attrs, enc):
    """Expected record for Sid string s (type from uri)."""
    ref = W.ref
    t = uri.split(":")[0]
    d0 = ref.forced(s, t)
    pr = W.prs[cfg]
    if d0 is None or not pr.has_path(t):
        return {}
    p = pr.render(t, d0)
    sc = pr.sidecar(p)
    d = dict(datamap.get((cfg, sc), {}))
    e = {"str": s, "uri": uri, "none": None}[enc]
    if e:
        d["sid"] = e
    if attrs:
        return {k: d.get(k) for k in attrs}
    return d


def build(W, mode):
    """Materialise both trees with data; return {(cfg, sidecar path): data} (later writers of a shared sidecar win)."""
    W.materialize()
    closure = sorted(W.store.paths)
    dm = data_for(W.leaves, closure, mode)
    datamap = {}
    for cfg in W.names:
        pr = W.prs[cfg]
        for s in sorted(dm):
            ep = tree.entity_path(W.ref, pr, s)
            if ep is None:
                continue
            sc = pr.sidecar(ep[0])
            if cfg != W.names[0] and len(datamap) % 3 == 0:
                continue                                   # this configuration lacks some sidecars the first one has
            d = dict(dm[s], a=("%s-%s" % (cfg, dm[s]["a"])), cfg=cfg)     # the stored data differs between configurations
            datamap[(cfg, sc)] = d
            with open(sc, "w") as f:
                f.write(json.dumps(d, indent=4))
    return datamap


def check_case(W, datamap, s):
    from spil import Sid, FindInPaths, FindInAll, GetFromPaths, GetFromAll, SpilException
    from spil.sid.read.tools import unfold_search
    out = []

    def bad(sig, obs, exp):
        out.append(dict(signature=sig, observed=obs, expected=exp))

    found_any = False
    for cfg in W.names:
        try:
            found = [(x.uri, x.string) for x in FindInPaths(cfg).find(s)]
        except SpilException:
            return out, "spilexc"
        except Exception as e:  # noqa
            bad(f"find-raises/{type(e).__name__}", repr(e)[:100], "list")
            return out, "exception"
        found_any = found_any or bool(found)
        for attrs in ATTRS:
            for enc in ENCS:
                try:
                    got = list(GetFromPaths(cfg).get(s, attributes=attrs, sid_encode=enc_fn(enc)))
                except Exception as e:  # noqa
                    bad(f"get-raises/{type(e).__name__}", [cfg, attrs, enc, repr(e)[:100]], "records")
                    continue
                exp = [record(W, datamap, cfg, u, st, attrs, enc) for u, st in found]
                got = json.loads(json.dumps(got, default=str))
                exp = json.loads(json.dumps(exp, default=str))
                if got != exp:
                    sig = "getter-records-differ-from-finder"
                    if len(got) != len(exp):
                        sig += "/count"
                    elif sorted(map(json.dumps, got)) == sorted(map(json.dumps, exp)):
                        sig += "/order"
                    elif attrs and any(set(g) != set(attrs) for g in got):
                        sig += "/keys-not-exactly-attributes"
                    elif enc == "none" and any("sid" in g and g["sid"] is not None for g in got if not attrs or "sid" not in attrs):
                        sig += "/sid-not-omitted"
                    bad(sig, [cfg, attrs, enc, got[:3]], exp[:3])
                    continue
                # the same request in its other forms: arguments passed positionally, get_one, get_data per found Sid
                try:
                    pos = json.loads(json.dumps(list(GetFromPaths(cfg).get(s, attrs, enc_fn(enc))), default=str))
                    one = json.loads(json.dumps(GetFromPaths(cfg).get_one(s, attrs, enc_fn(enc)), default=str))
                    per = [json.loads(json.dumps(GetFromPaths(cfg).get_data(st, attributes=attrs, sid_encode=enc_fn(enc)), default=str)) for u, st in found[:2]]
                except Exception as e:  # noqa
                    bad(f"get-other-form-raises/{type(e).__name__}", [cfg, attrs, enc, repr(e)[:100]], "records")
                    continue
                if pos != exp:
                    bad("positional-get-differs-from-keyword-get", [cfg, attrs, enc, pos[:3]], exp[:3])
                if one != (exp[0] if exp else {}):
                    bad("get_one-is-not-first-record/with-attributes-or-encoder", [cfg, attrs, enc, one], exp[:1])
                # get_data answers for one Sid given by its string: the type is the natural one, so compare only when that is the found type
                for (u, st), g in zip(found[:2], per):
                    if W.ref.natural(st)[0] == u.split(":")[0] and g != record(W, datamap, cfg, u, st, attrs, enc):
                        bad("get_data-is-not-the-record-of-that-sid/with-attributes-or-encoder", [cfg, st, attrs, enc, g], record(W, datamap, cfg, u, st, attrs, enc))
        # get_one / get_data / get_attr
        try:
            g1 = GetFromPaths(cfg).get_one(s)
            exp1 = record(W, datamap, cfg, found[0][0], found[0][1], None, "str") if found else {}
            if json.loads(json.dumps(g1, default=str)) != json.loads(json.dumps(exp1, default=str)):
                bad("get_one-is-not-first-record", [cfg, g1], exp1)
            for u, st in found[:3]:
                gd = GetFromPaths(cfg).get_data(st)
                ed = record(W, datamap, cfg, u, st, None, "str")
                if json.loads(json.dumps(gd, default=str)) != json.loads(json.dumps(ed, default=str)):
                    bad("get_data-is-not-the-record-of-that-sid", [cfg, st, gd], ed)
                for key in list(ed) + ["zz"]:       # every key of the record (the 'sid' entry included), and an absent one
                    ga = GetFromPaths(cfg).get_attr(st, key)
                    if json.loads(json.dumps(ga, default=str)) != json.loads(json.dumps(ed.get(key), default=str)):
                        bad("get_attr-is-not-one-value-of-the-record" + ("/sid-entry" if key == "sid" else ""), [cfg, st, key, ga], ed.get(key))
                        break
        except Exception as e:  # noqa
            bad(f"get_one-or-get_data-raises/{type(e).__name__}", repr(e)[:100], "records")
    # GetFromAll: every type that has a configured Getter answers like its Getter; types routed to None yield nothing
    cfg = W.names[0]
    for prelude in (False, True):
        sfx = ""
        if prelude:
            # GetFromAll objects made with a configuration name are asked first, from cold singletons (last configuration first):
            # what GetFromAll() answers afterwards is still the default configuration's data
            from mc import env
            env.reset()
            sfx = "/after-GetFromAll(config)"
            for n in reversed(W.names):
                try:
                    list(GetFromAll(n).get(s))
                except Exception:  # noqa
                    pass
        try:
            typed = unfold_search(s)
            exp = []
            for x in FindInAll().find(s):
                if x.type in W.sources:   # constants-backed types have no Getter in the demo configuration
                    continue
                exp.append(record(W, datamap, cfg, x.uri, x.string, None, "str"))
            found_all = [(x.uri, x.string) for x in FindInAll().find(s) if x.type not in W.sources]
            for attrs in ATTRS:
                for enc in ENCS:
                    got = list(GetFromAll().get(s, attributes=attrs, sid_encode=enc_fn(enc)))
                    exp = [record(W, datamap, cfg, u, st, attrs, enc) for u, st in found_all]
                    got = json.loads(json.dumps(got, default=str))
                    exp = json.loads(json.dumps(exp, default=str))
                    if got != exp:
                        sig = "get-from-all-differs"
                        if sorted(map(json.dumps, got)) == sorted(map(json.dumps, exp)):
                            sig += "/order"
                        if len(got) > len(exp) and {json.dumps(g) for g in got} == {json.dumps(e) for e in exp}:
                            sig += "/same-sid-returned-more-than-once"
                        elif len(got) < len(exp):
                            sig += "/records-missing"
                        bad(sig + sfx, [attrs, enc, got[:4]], exp[:4])
                        break
        except SpilException:
            pass
        except Exception as e:  # noqa
            bad(f"get-from-all-raises/{type(e).__name__}" + sfx, repr(e)[:100], "records")
    return out, ("found" if found_any else "nothing-found")


def no_getter_reads(W, only=None):
    from spil import Sid, GetFromAll
    from mc import datagen
    out = []
    seen = set()
    for s in datagen.closure_list(W.ref, W.leaves):
        t = W.ref.natural(s)[0]
        if t not in W.sources or t in seen:
            continue
        seen.add(t)
        for form, arg in (("str", s), ("sid", Sid(s)), ("uri", t + ":" + s)):
            if only and [s, form] != only:
                continue
            try:
                got = [GetFromAll().get_data(arg), GetFromAll().get_attr(arg, "a"), GetFromAll().get_attr(arg, "sid"), GetFromAll().get_one(arg), list(GetFromAll().get(arg))]
                want = [{}, None, None, {}, []]
                if json.loads(json.dumps(got, default=str)) != want:
                    out.append(dict(signature="type-without-getter-yields-something/" + form, case=[s, form], observed=got, expected=want))
            except Exception as e:  # noqa
                out.append(dict(signature=f"type-without-getter-fails/{type(e).__name__}/" + form, case=[s, form], observed=repr(e)[:120], expected="nothing, without failing"))
    return out


def searches(ref, W, k):
    from props import c11
    for s in c11.searches(ref, W, "thorough" if k >= 2 else "quick"):
        if ">" in s and k < 2:
            continue
        yield s
    yield from c11.cross_basetype_last(ref, W)      # sorted answers over several basetypes: the order clause
    # overlapping alternatives
    for p in sorted(W.store.paths)[:: max(1, len(W.store.paths) // 15)]:
        segs = p.split("/")
        for i in range(1, len(segs)):
            yield "/".join(segs[:i] + [segs[i] + ",*"] + segs[i + 1:])
            yield "/".join(segs[:i] + [segs[i][:1] + "*,*"] + segs[i + 1:])


def plan(tier, seed):
    combos = [("sparse", "sparse"), ("one-basetype", "dense"), ("sparse", "none")] + ([("full", "sparse"), ("names-only", "dense")] if tier == "thorough" else [])
    shards = []
    for u, m in combos:
        n = 16 if (tier == "thorough" and u == "sparse" and m == "sparse") else 5
        shards += [{"universe": u, "data": m, "index": i, "count": n, "first_index": (0, -1)[i % 2]} for i in range(n)]
    return {"shards": shards}


def run_shard(sh):
    from mc.ref.model import Conf
    from mc import env
    ref = Conf()
    W = worlds.World(ref, worlds.universes(ref, "thorough")[sh["universe"]], sh["universe"])
    first = worlds.touch_first(W.names[sh.get("first_index", 0)])
    datamap = build(W, sh["data"])
    rec = Recorder(sh["index"], sh["count"], sh["seed"])
    k = 2 if (sh["tier"] == "thorough" and sh["universe"] == "sparse" and sh["data"] == "sparse") else 1
    for s in searches(ref, W, k):
        if not rec.mine(sh["universe"] + sh["data"] + "|" + s):
            continue
        env.reset()
        v, cls = check_case(W, datamap, s)
        rec.case(cls, cls == "found", sample=[sh["universe"], sh["data"], s])
        for x in v:
            rec.violation(x["signature"], "search", [sh["universe"], sh["data"], s], x["observed"], x["expected"])
    # types configured without a Getter: every read form, for the string and for the Sid object, yields nothing without failing
    if sh["index"] == 0:
        for v in no_getter_reads(W):
            rec.violation(v["signature"], "no-getter", [sh["universe"], sh["data"], v["case"]], v["observed"], v["expected"])
        rec.case("no-getter-types", True)
    rec.extra = {"universe": sh["universe"], "data": sh["data"], "sidecars": len(datamap), "first_loaded": first}
    return worlds.tag_first(rec.result(), first)


def replay_case(kind, case):
    from mc.ref.model import Conf
    from mc import env
    ref = Conf()
    worlds.touch_first()
    W = worlds.World(ref, worlds.universes(ref, "thorough")[case[0]], case[0])
    datamap = build(W, case[1])
    if kind == "no-getter":
        env.reset()
        return [dict(v) for v in no_getter_reads(W, only=case[2])]
    env.reset()
    return check_case(W, datamap, case[2])[0]


def coverage(m, tier, seed):
    return {"bounds": {"k": 2 if tier == "thorough" else 1, "attribute_lists": len(ATTRS), "sid_encoders": len(ENCS)}, "exhaustive": True}
