"""C01 - a string is typed exactly as the configured templates say, else stays untyped.

E1: (a) full product of a per-position token alphabet for 0..N segments x uri forms,
    (b) every string within k edits of every type's skeleton (k = 0,1,2; thorough 3 on short menus).
Oracle: mc.ref.model.Conf (natural / forced typing by per-segment fullmatch).
"""
from __future__ import annotations
import itertools
from mc.rec import Recorder

ID = "C01"
LEVEL = "exploration"
RULE = ("inputs = (a) full product of the per-position token alphabet (accepted literals, near-misses, search symbols, "
        "junk, empty, control characters) for 0..N segments, each under every uri form (no prefix, every configured "
        "type, unknown type, empty type, 2-3 colons); (b) every string within k edits (substitute/delete/duplicate/"
        "insert/append) of each type's skeleton x value representatives, plus every member of every closed vocabulary "
        "(and its one-character near-misses / glued pairs) substituted at its position, plain and type-forced. distinct = distinct input strings "
        "(exact, content-hash sharding); non-trivial = input is typed by the reference, or is within one edit of a "
        "typed string, or carries a uri prefix / control character (i.e. everything except plain far-off junk). (c) ordered "
        "pairs of spellings that differ by an empty or absent part (s, s+':', ':'+s, type+':', s+'/', ...) asked one after the "
        "other from cold caches.")
ASSUMPTIONS = ["inputs contain no '?' (query handling is C04)", "reference typing = per-segment re.fullmatch against the "
               "raw configuration after reference extrapolation/pattern injection (mc/ref/model.py)"]

NAMES = ["ophelia", "my_hero", "a_rig", "x.y", "ab-c"]
JUNK = ["", "bla", " ", "x\ny", "hamlet\n", "\nhamlet", "\t", "a\x00", "\r", "*x", "v01", "V001"]
SYMS = ["*", ">", "**", "<", "a,s", "*,>"]


def _ctx():
    from mc.ref.model import Conf
    return Conf()


def position_tokens(ref, maxpos):
    """Per position: tokens drawn from the patterns occurring at that position."""
    pool = ref.literals() + ref.digit_instances() + NAMES
    out = []
    for i in range(maxpos):
        toks = []
        pats = []
        for typ, tpl in ref.templates.items():
            if len(tpl) > i and tpl[i][1] not in pats:
                pats.append(tpl[i][1])
                acc = [c for c in ref.accepted(typ, i, pool)]
                lits = acc[:2] if tpl[i][1] is not None else acc[:1] + [c for c in NAMES[:1] if c not in acc[:1]]
                for c in lits:
                    if c not in toks:
                        toks.append(c)
                # near-misses of the first accepted literal
                if acc and tpl[i][1] is not None:
                    a = acc[0]
                    for nm in (a + "x", a.swapcase(), a[:-1], a + "\n"):
                        if nm not in toks and nm != a:
                            toks.append(nm)
        out.append(toks)
    return out


def uri_forms(ref):
    forms = [""] + [t + ":" for t in ref.types] + ["nosuchtype:", ":"]
    return forms


def gen_product(ref, maxlen, uri_maxlen):
    """Family (a)."""
    pos = position_tokens(ref, maxlen)
    glob = SYMS + JUNK
    # a value valid at another position
    forms = uri_forms(ref)
    for L in range(0, maxlen + 1):
        alph = [pos[i] + glob + ([pos[(i + 1) % maxlen][0]] if pos[(i + 1) % maxlen] else []) for i in range(L)]
        for combo in itertools.product(*alph):
            s = "/".join(combo)
            yield s
            if L <= uri_maxlen:
                for f in forms[1:]:
                    yield f + s
                yield "project:" + s + ":x"
                yield "::" + s
                yield s + "::"
                yield "a:" + s + ":" + s


def skeletons(ref, reps):
    pool = ref.literals() + ref.digit_instances() + NAMES
    for typ, tpl in ref.templates.items():
        for r in range(reps):
            segs = []
            for i, (k, p) in enumerate(tpl):
                acc = ref.accepted(typ, i, pool)
                if p is None:
                    acc = [n for n in NAMES] or acc
                segs.append(acc[(r * (i + 1)) % len(acc)] if acc else "x")
            yield typ, segs


def edit_menu(ref):
    toks = []
    for t in SYMS + JUNK + [ref.literals()[0], NAMES[0]] + ref.digit_instances()[:2]:
        if t not in toks:
            toks.append(t)
    return toks


def single_edits(segs, toks, maxlen=12):
    n = len(segs)
    for i in range(n):
        for t in toks:
            if t != segs[i]:
                yield ("sub", i, t)
        yield ("del", i, None)
        yield ("dup", i, None)
        for c in ("\n", "\r\n", " ", "\t", "\x00"):
            yield ("sub", i, segs[i] + c)      # a valid value followed by a control character
        for c in ("\n", " "):
            yield ("sub", i, c + segs[i])
    for i in range(n + 1):
        for t in toks:
            yield ("ins", i, t)
    for extra in range(2, maxlen - n + 1):
        yield ("app", extra, toks[(extra * 7) % len(toks)])


def apply_edit(segs, e):
    op, i, t = e
    s = list(segs)
    if op == "sub":
        if i < len(s):
            s[i] = t
    elif op == "del":
        if i < len(s):
            del s[i]
    elif op == "dup":
        if i < len(s):
            s.insert(i, s[i])
    elif op == "ins":
        s.insert(min(i, len(s)), t)
    elif op == "app":
        s.extend([t] * i)
    return s


def vocabulary_sweep(ref, typ, segs):
    """Every member of every closed vocabulary at its position (aliases, members that extend or are extended by another
    member: 'ma'/'maya', 'mov'/'movie'), plus the near-misses of each member: one character less, one more, two members glued."""
    pool = ref.literals() + ref.digit_instances()
    for i, (_key, p) in enumerate(ref.templates[typ]):
        if p is None:
            continue
        acc = ref.accepted(typ, i, pool)
        for v in acc:
            cands = [v, v[:-1], v + "x", v + acc[0], acc[0] + v, v.upper()]
            for c in cands:
                if c != segs[i]:
                    yield "/".join(segs[:i] + [c] + segs[i + 1:])


def gen_edits(ref, reps, k):
    toks = edit_menu(ref)
    forms = uri_forms(ref)
    for typ, segs in skeletons(ref, reps):
        yield "/".join(segs)
        for f in forms[1:]:
            yield f + "/".join(segs)
        for i, (_key, p) in enumerate(ref.templates[typ]):
            if p is None:                      # a colon inside a free-text value, with and without the type prefix
                for v in (segs[i][:2] + ":" + segs[i][2:], ":" + segs[i], segs[i] + ":"):
                    w = "/".join(segs[:i] + [v] + segs[i + 1:])
                    yield typ + ":" + w
                    yield ":" + w
                    yield w
        for st in vocabulary_sweep(ref, typ, segs):
            yield st
            yield typ + ":" + st
        singles = list(single_edits(segs, toks))
        for e in singles:
            s1 = apply_edit(segs, e)
            st = "/".join(s1)
            yield st
            yield typ + ":" + st
            if k >= 2:
                for e2 in single_edits(s1, toks):
                    s2 = apply_edit(s1, e2)
                    yield "/".join(s2)
                    if k >= 3 and len(segs) <= 3:
                        for e3 in single_edits(s2, toks[:8]):
                            yield "/".join(apply_edit(s2, e3))


# ------------------------------------------------------------------------------------------------ oracle
def expected(ref, s):
    """-> ('exact', type|None, fields|None, string)  or ('multi', [candidates])"""
    c = s.count(":")
    if c == 0:
        t, d = ref.natural(s)
        return ("exact", t, d, s)
    if c == 1:
        T, S = s.split(":")
        if T == "":
            t, d = ref.natural(S)
        else:
            d = ref.forced(S, T)
            t = T if d is not None else None
        return ("exact", t, d, S)
    # two or more colons: "a 'type:' prefix forces that one template" - when what stands before the FIRST colon is a
    # configured type (or nothing), the rest is the string, colons included (a free-text segment may contain one)
    T, S = s.split(":", 1)
    if T == "" or T in ref.templates:
        if T == "":
            t, d = ref.natural(S)
        else:
            d = ref.forced(S, T)
            t = T if d is not None else None
        return ("exact", t, d, S)
    return ("multi",)


def observe(s):
    from spil import Sid
    x = Sid(s)
    return {"type": x.type, "fields": list(x.fields.items()), "str": str(x), "bool": bool(x), "len": len(x)}


def check_case(ref, s):
    out = []
    try:
        o = observe(s)
    except Exception as e:  # noqa
        shape = "multi-colon" if s.count(":") >= 2 else ("uri" if ":" in s else "plain")
        return [dict(signature=f"exception/{type(e).__name__}/{shape}", observed=repr(e), expected="no exception")], "exception"
    exp = expected(ref, s)
    if exp[0] == "multi":
        if o["bool"]:
            ok = False
            idxs = [i for i, ch in enumerate(s) if ch == ":"]
            for i in idxs:
                T, S = s[:i], s[i + 1:]
                d = ref.forced(S, T) if T else None
                if d is not None and o["type"] == T and o["str"] == S and o["fields"] == list(d.items()):
                    ok = True
            if not ok:
                out.append(dict(signature="multi-colon/typed-inconsistent", observed=o, expected="untyped or a consistent split"))
        else:
            if o["type"] != "" or o["fields"] or o["len"] != 0:
                out.append(dict(signature="untyped-shape", observed=o, expected="empty type/fields/len"))
        return out, "multi-colon"
    _, t, d, string = exp
    if t is None:
        want = {"type": "", "fields": [], "str": string, "bool": False, "len": 0}
        cls = "untyped"
    else:
        want = {"type": t, "fields": list(d.items()), "str": string, "bool": True, "len": len(d)}
        cls = "typed:" + t
    if o == want and ":" not in s and t is not None:
        # typing must not depend on Sid objects of the same string built before (a Sid object and its bare string
        # are both legal arguments of Sid(); C13 explores histories in general, this is the C01 clause under them)
        others = [t2 for t2 in ref.all_types(s) if t2 != t]
        if others:
            from spil import Sid
            from spil.sid.core.sid_factory import sid_to_sid
            for t2 in others:
                sid_to_sid.cache_clear()          # cold: the Sid object is asked first, the bare string afterwards
                Sid(Sid(t2 + ":" + s))
                o2 = observe(s)
                if o2 != want:
                    out.append(dict(signature="plain-string-typed-by-an-earlier-forced-sid-object", observed=[t2, o2], expected=want))
                    break
            sid_to_sid.cache_clear()
    if o != want:
        if o["bool"] and t is None and s.endswith("\n") and ref.natural(string[:-1])[0]:
            sig = "typed-but-last-segment-rejected/trailing-newline"
        elif o["bool"] and t is None:
            sig = "typed-but-no-template-accepts"
        elif not o["bool"] and t is not None:
            sig = "untyped-but-template-accepts"
        elif o["type"] != want["type"]:
            sig = "wrong-template-wins"
        elif o["str"] != want["str"]:
            sig = "string-not-verbatim"
        else:
            sig = "fields-or-shape-differ"
        out.append(dict(signature=sig, observed=o, expected=want))
    return out, cls


def want_of(ref, s):
    exp = expected(ref, s)
    if exp[0] == "multi":
        return None
    _, t, d, string = exp
    if t is None:
        return {"type": "", "fields": [], "str": string, "bool": False, "len": 0}
    return {"type": t, "fields": list(d.items()), "str": string, "bool": True, "len": len(d)}


def pair_cases(ref, reps):
    """(a, b): two spellings that differ by an empty or absent part (a trailing / leading colon, an empty type, an empty
    string after a type) - asked one after the other in one process, in both orders, each time from cold caches."""
    seen = set()
    for typ, segs in skeletons(ref, reps):
        s = "/".join(segs)
        for v in (s + ":", ":" + s, typ + ":" + s, typ + ":", s + "/", "/" + s, s + ":" + typ, s):
            for a, b in ((s, v), (v, s)):
                if (a, b) not in seen:
                    seen.add((a, b))
                    yield a, b


def check_pair(ref, a, b):
    from mc import env
    env.reset()
    try:
        observe(a)
        if a == b:
            # the same string asked again after a caller edited what the first answer handed out
            from spil import Sid
            d = Sid(a).fields
            for k in list(d):
                d[k] = "edited"
            d["injected"] = "x"
        o = observe(b)
    except Exception as e:  # noqa
        return [dict(signature=f"exception/{type(e).__name__}/pair", observed=repr(e), expected="no exception")]
    w = want_of(ref, b)
    env.reset()
    if w is not None and o != w:
        return [dict(signature="answer-depends-on-the-spelling-asked-before", observed=[a, o], expected=w)]
    return []


# ------------------------------------------------------------------------------------------------ plumbing
def plan(tier, seed):
    n = 16 if tier == "thorough" else 8
    return {"shards": [{"index": i, "count": n} for i in range(n)]}


def params(tier):
    if tier == "c20":
        return dict(maxlen=3, uri_maxlen=1, reps=1, k=1)
    if tier == "thorough":
        return dict(maxlen=4, uri_maxlen=3, reps=3, k=3)
    return dict(maxlen=4, uri_maxlen=2, reps=2, k=2)


def run_shard(sh):
    ref = _ctx()
    rec = Recorder(sh["index"], sh["count"], sh["seed"])
    p = params(sh["tier"])
    fam = {"product": gen_product(ref, p["maxlen"], p["uri_maxlen"]), "edits": gen_edits(ref, p["reps"], p["k"])}
    gen = {k: 0 for k in fam}
    for name, g in fam.items():
        for s in g:
            gen[name] += 1
            if "?" in s or not rec.mine(s):
                continue
            viols, cls = check_case(ref, s)
            nontrivial = cls != "untyped" or ":" in s or any(ord(c) < 32 for c in s) or _near(ref, s)
            rec.case(cls, nontrivial, sample=s)
            for v in viols:
                rec.violation(v["signature"], "str", s, v["observed"], v["expected"])
    for a, b in pair_cases(ref, p["reps"]):
        if not rec.mine("pair|" + a + "|" + b):
            continue
        viols = check_pair(ref, a, b)
        rec.case("pair", True, sample=[a, b])
        for v in viols:
            rec.violation(v["signature"], "pair", [a, b], v["observed"], v["expected"])
    rec.extra = {"generated": gen}
    return rec.result()


def _near(ref, s):
    segs = s.split("/")
    if len(segs) > ref.maxlen + 1:
        return False
    for i in range(len(segs)):
        if ref.natural("/".join(segs[:i] + ["*"] + segs[i + 1:]))[0]:
            return True
    return False


def replay_case(kind, case):
    ref = _ctx()
    if kind == "pair":
        return check_pair(ref, case[0], case[1])
    viols, _ = check_case(ref, case)
    return viols


def coverage(m, tier, seed):
    p = params(tier)
    return {"bounds": p, "exhaustive": True,
            "explanation": f"full token product for 0..{p['maxlen']} segments; uri forms up to {p['uri_maxlen']} segments; "
                           f"k<={p['k']} edits of {p['reps']} skeleton(s) per type (k=3 only for skeletons of <=3 segments)"}
