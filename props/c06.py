"""C06 - a path resolves only to the Sid that owns it, and never makes Sid() fail.

E1: every path within k edits of the rendering of a universe Sid (edits on field occurrences, literal template parts,
path components, tails, roots), in each configuration, cold and after the other configuration resolved the same string.
"""
from __future__ import annotations
import itertools, os
from pathlib import Path
from mc.rec import Recorder
from mc import universe

ID = "C06"
LEVEL = "exploration"
RULE = ("inputs = for each base path (rendering of one universe Sid per path-typed type x 2-3 value variants, per "
        "configuration) every path within k edits: substitute one occurrence of a field by another valid / an invalid / "
        "an empty value (desynchronising repeated fields), substitute all occurrences, change each literal template part "
        "(separator, fixed folder renamed / removed / lower-cased, the extension dot), drop / duplicate each path "
        "component, append '/x', '/', newline, an extension, remove the last component, swap the root for the other "
        "configuration's, a foreign path. Each evaluated cold, after the other configuration resolved the same string, and (paths "
        "holding '?' or ':') after the Sid that the result's string denotes was asked for its path. "
        "The base paths exist on disk, each base file with a non-conforming symbolic link to it. The whole space is run once per first-loaded path configuration. distinct = distinct (path, configuration, first-loaded); non-trivial = differs from a valid path by <= k edits (all)."
        " Added order 'after-overflow': the path is asked before and again after more distinct paths than the caches hold (capacity 2 and 3).")
ASSUMPTIONS = ["a typed result must satisfy str(result.path(c)) == p (the statement says 'exactly p'; '//' or a trailing '/' are other strings)"]


def tokens(pr, typ, fields):
    """Rendering as token list: [kind, text, key] with kind in lit/key."""
    out = []
    for p in pr.parsed[typ]:
        if p[0] == "lit":
            out.append(["lit", p[1], None])
        else:
            out.append(["key", pr.to_path_value(p[1], fields.get(p[1], ""), typ), p[1]])
    return out


def join(toks):
    return "".join(t[1] for t in toks)


def other_values(ref, pr, typ, key, cur):
    keys = ref.keys(typ)
    if key not in keys:
        return ["zz"]
    i = keys.index(key)
    pool = ref.literals() + ref.digit_instances() + universe.NAMES
    vals = [pr.to_path_value(key, v) for v in ref.accepted(typ, i, pool) if v not in ("*", ">")]
    if ref.templates[typ][i][1] is None:
        # free text: also characters that mean something in a Sid string (query, uri, or-list, glob)
        return [v for v in ["other", "my_hero", "what?", "x?%s=y" % key, "x?bogus=1", "x?%s=bogus!" % keys[0], "..", ".", "a:b", "a,b", "ab*", "ab c", ">"] if v != cur]
    # every member of the closed vocabulary, and every path-side spelling the configuration's value mapping knows for the key
    # (a mapping may know more spellings than there are Sid values)
    for pv in pr.mapping.get(key, {}):
        if pv not in vals:
            vals.append(pv)
    return [v for v in vals if v != cur] or ["zz"]


def single_edits(ref, pr, typ, toks, root, other_root):
    """yield edited path strings (one edit each)."""
    n = len(toks)
    occ = {}
    for i, t in enumerate(toks):
        if t[0] == "key":
            occ.setdefault(t[2], []).append(i)
    for i, t in enumerate(toks):
        if t[0] == "key":
            for v in other_values(ref, pr, typ, t[2], t[1]) + ["bogus!", "", t[1].lower() if t[1].lower() != t[1] else t[1].upper()]:
                e = [list(x) for x in toks]
                e[i][1] = v
                yield join(e)
            if len(occ[t[2]]) > 1 and i == occ[t[2]][0]:
                for v in other_values(ref, pr, typ, t[2], t[1])[:1] + ["bogus!"]:
                    e = [list(x) for x in toks]
                    for j in occ[t[2]]:
                        e[j][1] = v
                    yield join(e)
        elif i > 0:
            lit = t[1]
            # every separator character of the literal, one at a time
            for ci, ch in enumerate(lit):
                if ch in "_.-":
                    for rep in ("-" if ch != "-" else "_", "X", ""):
                        e = [list(x) for x in toks]
                        e[i][1] = lit[:ci] + rep + lit[ci + 1:]
                        yield join(e)
            # fixed folders inside the literal
            parts = lit.split("/")
            for pi, part in enumerate(parts):
                if part and part not in ("_", ".", "-") and len(part) > 1:
                    for rep in (part.lower() if part.lower() != part else part.upper(), part + "2", None):
                        q = list(parts)
                        if rep is None:
                            del q[pi]
                        else:
                            q[pi] = rep
                        e = [list(x) for x in toks]
                        e[i][1] = "/".join(q)
                        yield join(e)
    full = join(toks)
    rel = full[len(root):]
    comps = rel.split("/")
    for i in range(len(comps)):
        yield root + "/".join(comps[:i] + comps[i + 1:])
        yield root + "/".join(comps[:i] + [comps[i]] + comps[i:])
    for tail in ("/x", "/", "\n", ".ma", " ", "/.", "//x"):
        yield full + tail
    # equivalent spellings of separators (pathlib would normalise them): every separator doubled / dotted
    seps = [i for i, ch in enumerate(rel) if ch == "/"]
    for i in seps:
        yield root + rel[:i] + "//" + rel[i + 1:]
        yield root + rel[:i] + "/./" + rel[i + 1:]
    yield root.rstrip("/") + "//" + rel
    yield "/." + full
    yield os.path.dirname(full) + "//" + os.path.basename(full)
    yield other_root + rel
    yield "/nowhere/" + rel
    yield rel
    yield full.replace("/", "\\") if "/" in full else full


def base_sids(ref, pr, variants):
    out = []
    for typ in ref.types:
        if not pr.has_path(typ):
            continue
        vs = universe.value_sets(ref, typ, n_closed=2, n_digit=2, n_names=2, search=False, aliases=False)
        for i, (k, p) in enumerate(ref.templates[typ]):
            if p is None and "my_hero" not in vs[i]:
                vs[i].append("my_hero")
        for r in range(variants):
            segs = [v[(r + (i % 2 if r else 0)) % len(v)] if v else "x" for i, v in enumerate(vs)]
            s = "/".join(segs)
            if ref.natural(s)[0] == typ and (typ, s) not in out:
                out.append((typ, s))
    return out


_FILL: dict = {}


def check_case(ref, prefs, owners, case):
    """case = [path, config, order]  order in 'cold' | 'after-other'"""
    from spil import Sid
    from mc import env
    p, c, order = case
    p = decode(prefs, p)
    out = []
    env.reset()
    names = [n for n in prefs if n]
    try:
        if order == "after-other":
            for o in names:
                if o != c:
                    try:
                        Sid(path=p, config=o)
                    except Exception:  # noqa
                        pass
        if order == "after-string-sid":
            # the Sid that the resulting *string* denotes (a value holding '?' or ':' reads as a query / a type prefix) is
            # asked for its path first: what one Sid answered must not be served to another one
            x0 = Sid(path=p, config=c)
            if x0:
                for txt in (x0.string, x0.uri):
                    try:
                        z = Sid(txt)
                        z.path(c), z.path(config=c), z.path()
                    except Exception:  # noqa
                        pass
        if order == "after-overflow":
            # more distinct paths than the caches hold (capacity 2, then 3), the path asked before and again after the overflow
            eff = c or [pr.default for pr in prefs.values()][0]
            if eff not in _FILL:
                _FILL[eff] = sorted(q for (cc, q) in owners if cc == eff)
            fill = [q for q in _FILL[eff][:5] if q != p][:4]
            firsts = []
            for cap, before, after in ((2, fill[:1], fill[1:2]), (3, fill[:2], fill[2:4])):
                env.reset()
                env.set_cache_capacity(cap)
                for q in before:
                    Sid(path=q, config=c).path(c)
                x1 = Sid(path=p, config=c)
                firsts.append((x1.uri, str(x1.path(c)) if x1 else None))
                for q in after + before[:1]:
                    Sid(path=q, config=c).path(c)
                x = Sid(path=p, config=c)
                if (x.uri, str(x.path(c)) if x else None) != firsts[-1]:
                    env.set_cache_capacity(None)
                    return [dict(signature="answer-changes-after-cache-overflow", observed=[x.uri, str(x.path(c)) if x else None, cap],
                                 expected=list(firsts[-1]))], "typed" if x else "untyped"
            env.set_cache_capacity(None)
        x = Sid(path=p, config=c)
    except Exception as e:  # noqa
        env.set_cache_capacity(None)
        sig = f"exception/{type(e).__name__}"
        if type(e).__name__ == "ResolvaException":
            sig += "/desynchronised-repeated-field"
        return [dict(signature=sig, observed=repr(e)[:200], expected="untyped Sid")], "exception"
    owner = owners.get((c or [pr.default for pr in prefs.values()][0], p))
    if x:
        try:
            back = x.path(c)
        except Exception as e:  # noqa
            return [dict(signature=f"typed-result/path-raises/{type(e).__name__}", observed=repr(e), expected=p)], "typed"
        if back is None or str(back) != p:   # "exactly p": the string that was given, not an equivalent spelling of it
            sig = "typed-but-its-path-differs"
            if order == "after-other":
                env.reset()
                y = Sid(path=p, config=c)
                if not y or (y.path(c) is not None and str(y.path(c)) == p):
                    sig += "/answer-of-other-configuration-served"
            if order == "after-string-sid":
                env.reset()
                y = Sid(path=p, config=c)
                if not y or (y.path(c) is not None and str(y.path(c)) == p):
                    sig += "/path-of-the-sid-its-string-denotes-served"
            if not sig.endswith("served"):
                if p.endswith("\n"):
                    sig += "/trailing-newline"
                elif back is not None and len(str(back)) == len(p):
                    sig += "/template-literal-matched-loosely"
            out.append(dict(signature=sig, observed=[x.uri, str(back)], expected=p))
        elif owner and x.uri != owner:
            out.append(dict(signature="valid-path-resolves-to-other-sid", observed=x.uri, expected=owner))
        return out, "typed"
    if owner:
        out.append(dict(signature="valid-path-not-resolved", observed=x.uri, expected=owner))
    return out, "untyped"


def encode(prefs, p):
    for n, pr in prefs.items():
        if n:
            p = p.replace(pr.root(), "<" + n + ">").replace(pr.root().replace("/", "\\"), "<" + n + "\\>")   # (also the backslash spelling)
    return p


def decode(prefs, p):
    for n, pr in prefs.items():
        if n:
            p = p.replace("<" + n + "\\>", pr.root().replace("/", "\\")).replace("<" + n + ">", pr.root())
    return p


def setup(tier):
    from mc.ref.model import Conf
    from mc.ref.paths import PathsRef
    ref = Conf()
    names = list(PathsRef().configs)
    prefs = {n: PathsRef(n) for n in names}
    owners = {}
    bases = []
    for c in names:
        pr = prefs[c]
        for typ, s in base_sids(ref, pr, 4 if tier == "thorough" else (1 if tier == "c20" else 2)):
            d = ref.forced(s, typ)
            toks = tokens(pr, typ, d)
            owners[(c, join(toks))] = typ + ":" + s
            bases.append((c, typ, toks))
    return ref, prefs, owners, bases, names


def gen(ref, prefs, bases, names, k, owners=None):
    for s0 in ("*", ">", "**", "?", ""):
        for c in names:
            yield s0, c
    for c, typ, toks in bases:
        pr = prefs[c]
        root = pr.root()
        other = [prefs[n].root() for n in names if n != c][0] if len(names) > 1 else "/other/"
        yield join(toks), c
        # "paths" that conform to no path template but read as Sid syntax: the Sid string itself, its uri, a query
        uri = (owners or {}).get((c, join(toks)))
        if uri:
            t0, s0 = uri.split(":", 1)
            d0 = ref.forced(s0, t0) or {}
            for fake in (s0, uri, "?" + "&".join(f"{a}={b}" for a, b in d0.items()), s0 + "?x=y", ":" + s0):
                yield fake, c
        singles = list(single_edits(ref, pr, typ, toks, root, other))
        for p in singles:
            yield p, c
        if k >= 2:
            # second edit: re-tokenise is not possible on an edited string, so pairs are built on the token level
            # for field/literal edits, and on the string level for tails
            for p in singles:
                for tail in ("/x", "\n", ".ma"):
                    yield p + tail, c
                if p.startswith(root):
                    yield other + p[len(root):], c
            t1 = list(single_edits_tok(ref, pr, typ, toks))
            for (i, a), (j, b) in itertools.combinations(t1, 2):
                if i == j:
                    continue
                e = [list(x) for x in toks]
                e[i][1] = a
                e[j][1] = b
                yield join(e), c


def single_edits_tok(ref, pr, typ, toks):
    for i, t in enumerate(toks):
        if t[0] == "key":
            for v in other_values(ref, pr, typ, t[2], t[1])[:1] + ["bogus!", ""]:
                yield i, v
        elif i > 0:
            lit = t[1]
            for ci, ch in enumerate(lit):
                if ch in "_.-":
                    yield i, lit[:ci] + "X" + lit[ci + 1:]
                    break


def plan(tier, seed):
    # the whole space once per "first touched" path configuration: a configuration module may derive its tables from
    # another one's, so what it is depends on which was loaded first (as in C05)
    return {"shards": [{"index": i, "count": 8, "first_index": f} for f in (0, -1) for i in range(8)]}     # first / last configured name


def run_shard(sh):
    ref, prefs, owners, bases, names = setup(sh["tier"])
    if "first_index" in sh:
        sh = dict(sh, first=names[sh["first_index"]])
    touch_first(sh.get("first"))
    populate(prefs, bases)
    rec = Recorder(sh["index"], sh["count"], sh["seed"])
    k = 1 if sh["tier"] == "c20" else 2
    for p, c in gen(ref, prefs, bases, names, k, owners):
        p = encode(prefs, p)
        if not rec.mine(c + "|" + p):
            continue
        # the same path with the configuration argument left out: the default configuration is the one asked, no other one
        if rec.mine("<default>|" + p):
            for order in ("cold", "after-other"):
                viols, cls = check_case(ref, prefs, owners, [p, None, order])
                rec.case(cls + "/no-config-argument/" + order, True, sample=[p, None, order])
                for v in viols:
                    rec.violation(v["signature"] + "/no-config-argument", "path", [p, None, order, sh.get("first")], v["observed"], v["expected"])
        for order in ("cold", "after-other", "after-string-sid", "after-overflow"):
            if order == "after-string-sid" and not any(ch in p for ch in "?:"):
                continue        # string and fields denote the same Sid: nothing another Sid could have answered
            viols, cls = check_case(ref, prefs, owners, [p, c, order])
            rec.case(cls + "/" + order, True, sample=[p, c, order])
            for v in viols:
                rec.violation(v["signature"], "path", [p, c, order, sh.get("first")], v["observed"], v["expected"])
    res = rec.result()
    for lst in res["violations"].values():
        for v in lst:
            v["env"] = {"env": {"VERIF_FIRST_CONFIG": sh.get("first") or ""}}     # one confirmation process per first-loaded configuration
    return res


def populate(prefs, bases):
    """The base paths exist on disk (folders and files), and next to every base file there is a symbolic link to it under a
    name that conforms to no template (the extension dot replaced by 'X', one of the generated edits): what a path resolves
    to is a matter of its spelling, not of which entry of the file system it happens to denote."""
    from mc import env
    env.clear_tree()
    for c, typ, toks in bases:
        full = join(toks)
        last = [i for i, t in enumerate(toks) if t[0] == "lit" and "." in t[1] and i > 0]
        is_file = bool(last) and toks[-1][0] == "key" and last[-1] == len(toks) - 2
        try:
            if is_file:
                os.makedirs(os.path.dirname(full), exist_ok=True)
                if not os.path.lexists(full):
                    open(full, "w").close()
                e = [list(x) for x in toks]
                lit = e[-2][1]
                ci = lit.rfind(".")
                e[-2][1] = lit[:ci] + "X" + lit[ci + 1:]
                if not os.path.lexists(join(e)):
                    os.symlink(full, join(e))
            else:
                os.makedirs(full, exist_ok=True)
        except OSError:
            pass


def touch_first(first):
    """Load the given path configuration before any other one is touched (no-op once configurations are loaded)."""
    if first:
        from spil.sid.pathops.pathconfig import get_path_config
        get_path_config(first)


def replay_case(kind, case):
    if len(case) > 3:
        touch_first(case[3])
    ref, prefs, owners, bases, names = setup("thorough")
    populate(prefs, bases)
    v = check_case(ref, prefs, owners, case[:3])[0]
    if case[1] is None:
        v = [dict(x, signature=x["signature"] + "/no-config-argument") for x in v]
    return v


def coverage(m, tier, seed):
    return {"bounds": {"k": 2, "base_variants": 4 if tier == "thorough" else 2}, "exhaustive": True}
