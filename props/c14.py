"""C14 - Sids are immutable values: equal means same uri, and nothing can alter one.

E1: all ordered pairs of a Sid universe (typed, untyped, same string under different forced types, equal Sids built by
different routes) for the equality / hash / string / ordering relations.
E2: every sequence (to the depth bound) of public operations and mutation attempts on everything they return or were
given, from cold and from warm caches; after every step the tracked Sids (string, type, fields, uri, hash) must be what
they were, and a Sid constructed afresh from the same argument must equal the tracked one.
"""
from __future__ import annotations
import json
import itertools, json
from mc.rec import Recorder
from mc import universe

ID = "C14"
LEVEL = "model_checking"
ENGINE = "E2-explicit-state-histories"
TECHNIQUE = "exhaustive pair enumeration for the value relations + exhaustive enumeration of operation histories with mutation attempts on the real objects"
RULE = ("pairs = every ordered pair of ~600 Sids (per type concrete + search + forced types sharing a string + untyped + "
        "route variants) for ==, hash, str-equality in both operand orders; sorted() from 8 rotations; set size. histories = "
        "every sequence of length <= D over ~45 operations (public methods on tracked / derived Sids and in-place mutation "
        "attempts on every returned dict / list and on dictionaries passed to constructors), from cold and warm caches; "
        "state = (string, type, fields, uri, hash) of 9 tracked Sids. distinct = distinct pairs / histories; non-trivial = "
        "pairs sharing string or uri, histories containing at least one mutation attempt.")
ASSUMPTIONS = ["only public API is used for mutation attempts (no access to underscore attributes)"]


def build_universe(ref, Sid):
    """list of (label, thunk)"""
    out = []
    conc = universe.one_per_type(ref)
    for t, s in conc.items():
        out.append(("str:" + s, lambda s=s: Sid(s)))
        out.append(("uri:" + t + ":" + s, lambda s=s, t=t: Sid(t + ":" + s)))
        d = ref.forced(s, t)
        out.append(("fields:" + s, lambda d=d: Sid(fields=dict(d))))
        segs = s.split("/")
        for i in range(len(segs)):
            st = "/".join(segs[:i] + ["*"] + segs[i + 1:])
            for t2 in ref.all_types(st):
                out.append(("uri:" + t2 + ":" + st, lambda st=st, t2=t2: Sid(t2 + ":" + st)))
            out.append(("str:" + st, lambda st=st: Sid(st)))
        out.append(("q:" + s, lambda s=s: Sid(s + "?bogus=1")))
    for j in ["", "bla", "bla/bla", "hamlet/zz", " ", "a:b:c", "?x=y"]:
        out.append(("str:" + j, lambda j=j: Sid(j)))
    # an untyped Sid whose string spells the uri of a typed one ('nope:asset:hamlet/a' keeps the string 'asset:hamlet/a'):
    # equal uris, however they split into type and string
    for t, s in list(conc.items())[:8]:
        out.append(("str:nope:" + t + ":" + s, lambda t=t, s=s: Sid("nope:" + t + ":" + s)))
    # names that are a prefix of a sibling continuing with a character that sorts below '/', and their children:
    # ordering by string and ordering by parts differ exactly there
    for t, s in conc.items():
        segs = s.split("/")
        for i, (k, p) in enumerate(ref.templates[t]):
            if p is None and i < len(segs):
                for nm in ("ab", "ab-c", "ab+c", "ab.c", "ab*", "ab c"):
                    v = "/".join(segs[:i] + [nm] + segs[i + 1:])
                    out.append(("str:" + v, lambda v=v: Sid(v)))
                    out.append(("str:" + "/".join(v.split("/")[: i + 1]), lambda v=v, i=i: Sid("/".join(v.split("/")[: i + 1]))))
                break
    seen, res = set(), []
    for l, f in out:
        if l not in seen:
            seen.add(l)
            res.append((l, f))
    return res


def pair_violations(la, a, lb, b):
    v = []
    eq = (a == b)
    if eq != (a.uri == b.uri):
        v.append(("eq-differs-from-uri-equality", [la, lb, eq], a.uri == b.uri))
    if eq and hash(a) != hash(b):
        v.append(("equal-sids-hash-differently", [la, lb], "equal hashes"))
    sb = b.string
    if (a == sb) != (a.string == sb) or (sb == a) != (a.string == sb):
        v.append(("sid-vs-string-equality-wrong", [la, sb, a == sb, sb == a], a.string == sb))
    if (a != b) == eq:
        v.append(("ne-inconsistent-with-eq", [la, lb], "not eq"))
    # sorting uses '<' only: it must order by string. The derived operators are compared where equality (by uri) and
    # string order cannot disagree, i.e. for pairs that are neither equal Sids nor equal strings.
    if (a < b) != (a.string < b.string):
        v.append(("ordering-not-by-string", [la, lb, "<"], "by string"))
    elif not eq and a.string != b.string and ((a > b) != (a.string > b.string) or (a <= b) != (a.string <= b.string) or (a >= b) != (a.string >= b.string)):
        v.append(("ordering-not-by-string", [la, lb, "derived"], "by string"))
    return v


def run_pairs(ref, rec, index, count):
    from spil import Sid
    U = [(l, f()) for l, f in build_universe(ref, Sid)]
    n = len(U)
    for i in range(n):
        if i % count != index:
            continue
        la, a = U[i]
        for j in range(n):
            lb, b = U[j]
            nontrivial = a.string == b.string or a.uri == b.uri
            rec.case("pair-same-string-or-uri" if nontrivial else "pair", nontrivial, sample=[la, lb])
            for sig, obs, exp in pair_violations(la, a, lb, b):
                rec.violation(sig, "pair", [la, lb], obs, exp)
    if index == 0:
        sids = [x for _, x in U]
        for r in range(8):
            rot = sids[r * len(sids) // 8:] + sids[: r * len(sids) // 8]
            srt = sorted(rot)
            strs = [x.string for x in srt]
            if strs != sorted(strs):
                rec.violation("sorted-not-by-string", "sort", [r], strs[:6], sorted(strs)[:6])
            rec.case("sorted-rotation", True)
        if len(set(sids)) != len({x.uri for x in sids}):
            rec.violation("set-size-differs-from-distinct-uris", "sort", ["set"], len(set(sids)), len({x.uri for x in sids}))
        if len({x: 1 for x in sids}) != len({x.uri for x in sids}):
            rec.violation("dict-size-differs-from-distinct-uris", "sort", ["dict"], 0, 0)
        for v in cross_process(sids):
            rec.violation(v["signature"], "xproc", ["pickle"], v["observed"], v["expected"])
        rec.case("pickled-to-another-process", True)


def cross_process(sids):
    """Sids pickled here and loaded by an interpreter with another string-hash seed are equal to the Sids built there from the
    same uris, hash like them, and are found in sets and dictionaries of them."""
    import pickle, subprocess, sys, os, tempfile
    d = tempfile.mkdtemp(dir=os.environ.get("VERIF_WORKDIR"))
    f = os.path.join(d, "sids.pickle")
    with open(f, "wb") as fh:
        pickle.dump([(x.uri, x) for x in sids if x], fh)        # typed Sids: the uri is a spelling that rebuilds them
    e = dict(os.environ, PYTHONHASHSEED="424242")
    p = subprocess.run([sys.executable, "-m", "props.c14", "load", f], capture_output=True, text=True, env=e,
                       cwd=os.path.dirname(os.path.dirname(os.path.abspath(__file__))))
    line = [l for l in p.stdout.splitlines() if l.startswith("XPROC ")]
    if p.returncode != 0 or not line:
        return [dict(signature="unpickling-in-another-process-fails", observed=(p.stderr or p.stdout)[-300:], expected="equal Sids")]
    bad = json.loads(line[-1][6:])
    return [dict(signature="sid-pickled-to-another-process-is-not-the-same-value/" + bad[0][1], observed=bad[:3], expected="equal, same hash, found in set and dict")] if bad else []


def _load_main(f):
    import pickle
    from mc import env
    env.boot()
    from spil import Sid
    bad = []
    for text, x in pickle.load(open(f, "rb")):
        y = Sid(text)
        if not (x == y and y == x):
            bad.append([text, "eq"])
        elif hash(x) != hash(y):
            bad.append([text, "hash"])
        elif x not in {y} or {y: 1}.get(x) != 1 or len({x, y}) != 1:
            bad.append([text, "container"])
        elif [x.string, x.type, dict(x.fields)] != [y.string, y.type, dict(y.fields)]:
            bad.append([text, "content"])
    print("XPROC " + json.dumps(bad[:10]))


# ------------------------------------------------------------------------------------------------ histories
def tracked_specs(ref):
    from mc.ref.paths import PathsRef
    from mc import tree
    conc = universe.one_per_type(ref)
    leaf = [t for t in ref.types if ref.is_leaf_type(t)][0]
    L = conc[leaf]
    S = "/".join(L.split("/")[:-1] + ["*"])
    forced = list(ref.all_types(S))
    pr = PathsRef()
    P = tree.entity_path(ref, pr, L)[0]
    d = ref.forced(L, leaf)
    specs = {"plain": ("str", L), "untyped": ("str", "bla/bla"), "path-born": ("path", P), "fields-born": ("fields", dict(d)),
             "query-born": ("query", "&".join(f"{k}={v}" for k, v in list(d.items())[:4])), "short": ("str", "/".join(L.split("/")[:3])),
             "empty": ("str", "")}
    # a Sid whose free-text value holds blanks (a value the query form would spell differently)
    names = [i for i, (k, p) in enumerate(ref.templates[leaf]) if p is None]
    if names:
        b = L.split("/")
        b[names[0]] = "big  bird "
        if ref.natural("/".join(b))[0] == leaf:
            specs["blank-name"] = ("str", "/".join(b))
    for i, t in enumerate(forced[:3]):
        specs[f"forced{i}"] = ("str", t + ":" + S)
    return specs, L, S


def make(Sid, spec):
    kind, arg = spec
    if kind == "str":
        return Sid(arg)
    if kind == "path":
        return Sid(path=arg)
    if kind == "fields":
        return Sid(fields=dict(arg))
    return Sid(query=arg)


def snap(T):
    return {k: [x.string, x.type, list(x.fields.items()), x.uri, hash(x), bool(x), len(x)] for k, x in T.items()}


def operations(ref, L, S):
    """name -> function(ctx) ; ctx = {'T': tracked, 'last': list of returned containers}"""
    from spil import Sid
    keys = list(ref.natural(L)[1])
    ops = {}

    def reg(name, f, mut=False):
        ops[name] = (f, mut)

    def mutate_dict(d):
        # ends in a state that differs from the original one: a non-empty dictionary is emptied, an empty one gets a key
        if isinstance(d, dict):
            had = bool(d)
            for k in list(d):
                d[k] = "MUTATED"
            d["injected"] = "x"
            if had:
                d.pop(next(iter(d)), None)
                d.clear()

    for tk in ("plain", "forced0", "forced1", "fields-born", "path-born", "query-born", "untyped"):
        reg(f"fields({tk})-mutate", lambda c, tk=tk: mutate_dict(c["T"][tk].fields) if tk in c["T"] else None, True)
    reg("fields(empty)-mutate", lambda c: mutate_dict(c["T"]["empty"].fields), True)
    reg("fields(parent-of-untyped)-mutate", lambda c: mutate_dict(c["T"]["untyped"].parent.fields), True)
    reg("fields(plain)-set-one", lambda c: c["T"]["plain"].fields.__setitem__(keys[-1], "zz"), True)
    reg("fields(plain).update", lambda c: c["T"]["plain"].fields.update({keys[0]: "other", "new": "1"}), True)
    reg("same-string-other-object-fields-mutate", lambda c: mutate_dict(Sid(L).fields), True)
    reg("same-string-forced-fields-mutate", lambda c: mutate_dict(Sid(c["T"]["forced0"].uri).fields) if "forced0" in c["T"] else None, True)
    reg("copy-fields-mutate", lambda c: mutate_dict(c["T"]["plain"].copy().fields), True)
    reg("parent-fields-mutate", lambda c: mutate_dict(c["T"]["plain"].parent.fields), True)
    reg("get_as-fields-mutate", lambda c: mutate_dict(c["T"]["plain"].get_as(keys[2]).fields), True)
    reg("get_with-fields-mutate", lambda c: mutate_dict(c["T"]["plain"].get_with(**{keys[-1]: "*"}).fields), True)

    # the caller keeps (and goes on using) the dictionary a Sid was built from: the Sid is a derived Sid that must not follow
    def ctor_then_mutate(c, how, n):
        items = list(c["T"]["plain"].fields.items())[:n]
        d = dict(reversed(items)) if how == "reversed" else dict(items)
        x = Sid(fields=d)
        want = snap({"x": x})["x"]
        if how == "grow" and n < len(keys):
            d[keys[n]] = "*"                  # the same dictionary reused to build the next, deeper Sid
            Sid(fields=d)
        elif how == "set":
            d[keys[n - 1]] = "zz"
        else:
            d.clear()
        c.setdefault("derived", []).append((f"Sid(fields=d)-then-{how}", x, want))
    for how in ("set", "clear", "grow", "reversed"):
        for n in (1, len(keys)):
            reg(f"Sid(fields=d[:{n}])-then-{how}-d", lambda c, how=how, n=n: ctor_then_mutate(c, how, n), True)

    def lists(c):
        x = c["T"]["short"]
        for lst in (x.children(), x.siblings()):
            if isinstance(lst, list):
                for s in lst:
                    mutate_dict(s.fields)
                del lst[:]
    reg("children-siblings-mutate", lists, True)
    reg("get_with(kw)", lambda c: c["T"]["plain"].get_with(**{keys[-1]: "*"}))
    reg("get_with(None)", lambda c: c["T"]["plain"].get_with(**{keys[-1]: None}))
    reg("get_with(query)", lambda c: c["T"]["plain"].get_with(query=keys[2] + "=*"))
    reg("get_with(bad-query)", lambda c: c["T"]["plain"].get_with(query=keys[2] + "=bogus!"))
    reg("get_with(key,value)", lambda c: c["T"]["plain"].get_with(key=keys[1], value="*"))
    reg("Sid(L?q)", lambda c: Sid(L + "?" + keys[-1] + "=*"))
    reg("Sid(L?bad)", lambda c: Sid(L + "?" + keys[-1] + "=bogus"))
    reg("div", lambda c: c["T"]["short"] / "x" / "y")
    reg("parent-walk", lambda c: c["T"]["plain"].parent.parent.parent)
    reg("get_as-all", lambda c: [c["T"]["plain"].get_as(k) for k in keys])
    reg("as_query", lambda c: [x.as_query() for x in c["T"].values() if x])
    reg("as_query(parent-of-blank-name)", lambda c: c["T"]["blank-name"].parent.as_query() if "blank-name" in c["T"] else None)
    reg("path-all-configs", lambda c: [c["T"]["plain"].path(n) for n in (None, "local", "server")])
    reg("path(forced)", lambda c: [x.path() for k, x in c["T"].items() if k.startswith("forced")])
    reg("match", lambda c: [c["T"]["plain"].match(S), c["T"]["plain"].match(L), c["T"]["untyped"].match(S)])
    reg("is_leaf-is_search", lambda c: [x.is_leaf() or x.is_search() for x in c["T"].values()])
    reg("exists-children", lambda c: [c["T"]["plain"].exists(), c["T"]["short"].children()])
    reg("get_last-next-new", lambda c: [c["T"]["plain"].get_last("version"), c["T"]["plain"].get_next("version"), c["T"]["plain"].get_new("version")] if "version" in keys else None)
    reg("unfold(S)", lambda c: __import__("spil.sid.read.tools", fromlist=["unfold_search"]).unfold_search(S))
    reg("unfold(S)-mutate-result", lambda c: [mutate_dict(u.fields) for u in __import__("spil.sid.read.tools", fromlist=["unfold_search"]).unfold_search(S)], True)
    reg("Sid(path)-fields-mutate", lambda c: mutate_dict(Sid(path=c["T"]["plain"].path()).fields), True)
    reg("hash-eq-str-repr", lambda c: [hash(x) for x in c["T"].values()] + [repr(x) + str(x) for x in c["T"].values()])
    reg("set-and-dict-of-tracked", lambda c: (set(c["T"].values()), {x: 1 for x in c["T"].values()}))
    reg("sorted(tracked)", lambda c: sorted(c["T"].values()))
    reg("eval(repr)", lambda c: [eval(repr(x), {"Sid": Sid}) for x in c["T"].values()])

    # value copies through the standard protocols (copy / deepcopy / pickle): each is a Sid derived from a tracked one; it is
    # kept, must equal its origin, and - like every existing Sid - must stay what it is while further copies are made
    def value_copies(c, how):
        import copy, pickle
        f = {"copy": copy.copy, "deepcopy": copy.deepcopy, "pickle": lambda x: pickle.loads(pickle.dumps(x))}[how]
        for k, x in c["T"].items():
            y = f(x)
            c.setdefault("derived", []).append((f"{how}({k})", y, snap({k: x})[k]))
    for how in ("copy", "deepcopy", "pickle"):
        reg(f"value-{how}(tracked)", lambda c, how=how: value_copies(c, how))
    reg("value-deepcopy-fields-mutate", lambda c: [mutate_dict(__import__("copy").deepcopy(x).fields) for x in c["T"].values()], True)
    return ops


def run_history(ref, specs, ops, hist, warm):
    from spil import Sid
    from mc import env
    env.reset()
    if warm:
        for spec in specs.values():
            make(Sid, spec)
        for n in ("unfold(S)", "path-all-configs", "get_as-all"):
            try:
                ops[n][0]({"T": {k: make(Sid, s) for k, s in specs.items()}, "last": []})
            except Exception:  # noqa
                pass
    T = {k: make(Sid, s) for k, s in specs.items()}
    before = snap(T)
    ctx = {"T": T, "last": []}
    out = []
    for i, name in enumerate(hist):
        try:
            ops[name][0](ctx)
        except Exception as e:  # noqa
            out.append(dict(signature=f"operation-raises/{type(e).__name__}/{name}", observed=repr(e)[:100], expected="no exception"))
            break
        for label, y, want in ctx.get("derived", []):
            got = snap({"d": y})["d"]
            if got != want:
                out.append(dict(signature="derived-sid-differs-from-its-origin-or-changed/" + label.split("(")[0], observed=[name, label, got[:4]], expected=want[:4]))
                break
        if out:
            break
        now = snap(T)
        if now != before:
            ch = [k for k in now if now[k] != before[k]]
            out.append(dict(signature="tracked-sid-changed/" + ("after-mutation-attempt" if ops[name][1] else "after-plain-operation") + "/" + name.split("(")[0].split("-")[0],
                            observed=[name, ch[:3], now[ch[0]][:3]], expected=before[ch[0]][:3]))
            break
        fresh = snap({k: make(Sid, s) for k, s in specs.items()})
        if fresh != before:
            ch = [k for k in fresh if fresh[k] != before[k]]
            out.append(dict(signature="fresh-sid-from-same-argument-differs/" + name.split("(")[0].split("-")[0], observed=[name, ch[:3], fresh[ch[0]][:3]], expected=before[ch[0]][:3]))
            break
    return out


def plan(tier, seed):
    return {"shards": [{"mode": "pairs", "index": i, "count": 6} for i in range(6)] + [{"mode": "hist", "index": i, "count": 10} for i in range(10)]}


def run_shard(sh):
    from mc.ref.model import Conf
    from mc import env, tree
    from mc.ref.paths import PathsRef
    ref = Conf()
    rec = Recorder(0, 1, sh["seed"])
    if sh["mode"] == "pairs":
        run_pairs(ref, rec, sh["index"], sh["count"])
        return rec.result()
    specs, L, S = tracked_specs(ref)
    env.clear_tree()
    tree.materialize(ref, PathsRef(), [L])
    ops = operations(ref, L, S)
    names = list(ops)
    D = 4 if sh["tier"] == "thorough" else 3
    i = 0
    for d in range(1, D + 1):
        for hist in itertools.product(names, repeat=d):
            i += 1
            if i % sh["count"] != sh["index"]:
                continue
            if d >= 3 and (not any(ops[n][1] for n in hist) or (d == 4 and not ops[hist[0]][1])):
                continue
            for warm in (False, True):
                v = run_history(ref, specs, ops, list(hist), warm)
                rec.transitions += len(hist)
                rec.traces += 1
                rec.case("history-len-%d" % d, any(ops[n][1] for n in hist), sample={"hist": list(hist), "warm": warm})
                for x in v:
                    rec.violation(x["signature"], "history", {"hist": list(hist), "warm": warm}, x["observed"], x["expected"])
    rec.states = len(specs)
    rec.extra = {"operations": len(names), "mutation_attempts": sum(1 for n in names if ops[n][1]), "depth": D}
    return rec.result()


def replay_case(kind, case):
    from mc.ref.model import Conf
    from mc import env, tree
    from mc.ref.paths import PathsRef
    from spil import Sid
    ref = Conf()
    if kind == "pair":
        U = dict(build_universe(ref, Sid))
        la, lb = case
        return [dict(signature=sig, observed=obs, expected=exp) for sig, obs, exp in pair_violations(la, U[la](), lb, U[lb]())]
    if kind == "xproc":
        return cross_process([f() for _, f in build_universe(ref, Sid)])
    if kind == "sort":
        rec = Recorder()
        run_pairs(ref, rec, 0, 10 ** 9)
        return [v for lst in rec.violations.values() for v in lst]
    specs, L, S = tracked_specs(ref)
    env.clear_tree()
    tree.materialize(ref, PathsRef(), [L])
    return run_history(ref, specs, operations(ref, L, S), case["hist"], case["warm"])


def coverage(m, tier, seed):
    return {"exhaustive": True, "bounds": {"history_length": 4 if tier == "thorough" else 3}, "explorers": m["extra"][:3]}


if __name__ == "__main__":
    import sys
    if sys.argv[1] == "load":
        _load_main(sys.argv[2])
