"""C08 - searching a list returns exactly the entries that glob-match the search.

E1: search family of C07 without '>' (+ partial globs inside segments) x generated lists (complete hierarchy, leaves
only, + near-misses and untyped junk, duplicates, extrapolated leaf list); match() for every (entry, search) of a
smaller list.  The unfolding is taken as spil produces it (C07 owns it); this check isolates the glob translation,
the scan, the duplicate suppression and the typed-non-search shortcut.
"""
from __future__ import annotations
import re
from mc.rec import Recorder
from mc import searchgen, datagen

ID = "C08"
LEVEL = "exploration"
RULE = ("inputs = (search, list): searches = star subsets + all <=k-edit combinations of the C07 menu without '>' + partial "
        "globs inside each segment, on one base per type; lists = {complete hierarchy of a generated universe whose names "
        "share prefixes and contain '.', '+', '-'; leaves only; hierarchy + near-misses + junk; with duplicates + pre-sort; "
        "leaves with do_extrapolate}. For the smallest list also match() for every (entry, search). distinct = distinct "
        "(search, list id); non-trivial = the expected result is non-empty.")
ASSUMPTIONS = ["glob metacharacters other than '*' ('?', '[', ']') are outside the alphabet",
               "do_strip is only checked for soundness (results are stripped entries that match), the statement does not define it"]


def ref_glob(pattern: str, entry: str) -> bool:
    ps, es = pattern.split("/"), entry.split("/")
    if len(ps) != len(es):
        return False
    for p, e in zip(ps, es):
        rx = "[^/]*".join(re.escape(x) for x in p.split("*"))
        if not re.fullmatch(rx, e, re.S):
            return False
    return True


def lists(ref, tier):
    if tier == "c20":
        leaves = datagen.leaf_universe(ref, n_versions=1, per_key=1)
        full = datagen.closure_list(ref, leaves)
        return {"hierarchy+near-miss+junk": (full + datagen.near_misses(ref, leaves), {}), "leaves+extrapolate": (leaves, {"do_extrapolate": True}),
                "small": (datagen.closure_list(ref, leaves[:: max(1, len(leaves) // 6)]), {})}
    leaves = datagen.leaf_universe(ref, n_versions=3 if tier == "thorough" else 2)
    full = datagen.closure_list(ref, leaves)
    nm = datagen.near_misses(ref, leaves)
    small_leaves = leaves[:: max(1, len(leaves) // 10)]
    return {
        "hierarchy": (full, {}),
        "leaves": (leaves, {}),
        "hierarchy+near-miss+junk": (full + nm, {}),
        "duplicates+presort": (list(reversed(full)) + full[:15], {"do_pre_sort": True}),
        "duplicates": (full[:40] + full[:40], {}),
        "leaves+extrapolate": (leaves, {"do_extrapolate": True}),
        "small": (datagen.closure_list(ref, small_leaves), {}),
    }


def partial_globs(ref):
    for typ, segs in searchgen.bases(ref):
        for i, sg in enumerate(segs):
            for g in (sg[:1] + "*", "*" + sg[-1:], sg[:2] + "*" + sg[-1:], "*" + sg[1:-1] + "*"):
                s = list(segs)
                s[i] = g
                yield "/".join(s)


def gen(ref, tier):
    k = 2 if tier == "thorough" else 1
    if tier == "c20":
        k = 0
    for s in searchgen.family(ref, k=k, with_last=False):
        if ">" not in s:
            yield s
    yield from partial_globs(ref)
    # the universe's own names as literal searches (metacharacters must match themselves)
    leaves = datagen.leaf_universe(ref)
    for s in leaves[::3]:
        yield s
        yield s.replace(".", "?") if False else s
        parts = s.split("/")
        if len(parts) > 4:
            yield "/".join(parts[:3] + ["*"] + parts[4:])
    for s in searchgen.malformed(ref):
        yield s


def effective_list(L, opts):
    if opts.get("do_extrapolate"):
        out, seen = [], set()
        for s in L:
            parts = s.split("/")
            for i in range(len(parts), 0, -1):
                p = "/".join(parts[:i])
                if p in seen:
                    break
                seen.add(p)
                out.append(p)
        return out
    return L


def expected(ref, s, L):
    """-> set of entries, or None when the search is one of the SpilException shapes."""
    from spil import Sid, SpilException
    from spil.sid.read.tools import unfold_search
    from mc.ref import search as rs
    try:
        sid = Sid(s)
    except Exception:  # noqa
        return None
    last = sid.string.split("/")[-1]
    raw_search = sid.is_search() or ref.is_search_text(s)
    if sid and not raw_search and "?" not in s and s.split("/")[-1] not in ref.alias:
        pats = [sid.string]   # a typed, non-search Sid (a plain Sid string: no symbol, no query, no alias) is found exactly when it is in L
    else:
        # searches, Sids whose last value is an alias, Sids that still carry a query: the unfolding (C07) decides
        try:
            impl = [(u.type, u.string) for u in unfold_search(s) if u and "?" not in u.string]   # typed searches only (C07)
            pats = [st for _, st in rs.denoted_typed(ref, s, impl)]   # the reference unfolding where it is unambiguous
        except SpilException:
            return None
    return {e for e in L if any(ref_glob(p, e) for p in pats)}


def check_case(ref, case, LISTS):
    from spil import FindInList, Sid, SpilException
    s, lid = case
    L, opts = LISTS[lid]
    out = []

    def bad(sig, obs, exp):
        out.append(dict(signature=sig, observed=obs, expected=exp))

    EL = effective_list(L, opts)
    exp = expected(ref, s, EL)
    try:
        got = list(FindInList(list(L), **opts).find(s, as_sid=False))
        got_sids = [str(x) for x in FindInList(list(L), **opts).find(s)]
    except SpilException as e:
        if exp is not None:
            bad("unexpected-SpilException", str(e)[:100], sorted(exp)[:5])
        return out, "spilexc"
    except Exception as e:  # noqa
        sig = f"exception/{type(e).__name__}"
        if type(e).__name__ == "error" or "global flags" in str(e):
            sig = "exception/re.error/global-flags-not-at-start"
        bad(sig, repr(e)[:160], sorted(exp)[:5] if exp else exp)
        return out, "exception"
    if exp is None:
        if got:
            bad("malformed-search-finds-entries", got[:5], "SpilException or nothing")
        return out, "malformed"
    if len(set(got)) != len(got):
        bad("duplicates-in-result", got[:8], "each once")
    if got_sids != got:
        bad("as_sid-strings-differ", got_sids[:5], got[:5])
    gs = set(got)
    if gs != exp:
        sid = Sid(s)
        if sid and not sid.is_search() and sid.string.split("/")[-1] in ref.alias:
            sig = "alias-in-last-segment-of-concrete-sid-not-expanded"
        elif gs - exp:
            sig = "finds-entries-that-do-not-match"
        else:
            sig = "misses-matching-entries"
        bad(sig, sorted(gs)[:6], sorted(exp)[:6])
    if lid == "small":
        # match(): True exactly when the Sid would be found by s in a list containing only itself
        for e in EL:
            x = Sid(e)
            if not x:
                continue
            want = e in (expected(ref, s, [e]) or set())
            try:
                m = x.match(s)
            except Exception as ex:  # noqa
                sig = f"match/exception/{type(ex).__name__}"
                if "global flags" in str(ex):
                    sig = "exception/re.error/global-flags-not-at-start"
                bad(sig, repr(ex)[:120], want)
                break
            if m != want:
                bad("match/differs-from-list-search", [e, s, m], want)
                break
    return out, ("empty" if not exp else "nonempty")


def plan(tier, seed):
    return {"shards": [{"index": i, "count": 16} for i in range(16)]}


def run_shard(sh):
    from mc.ref.model import Conf
    ref = Conf()
    LISTS = lists(ref, sh["tier"])
    rec = Recorder(sh["index"], sh["count"], sh["seed"])
    # do_strip soundness
    from spil import FindInList
    for s in gen(ref, sh["tier"]):
        for lid in LISTS:
            if not rec.mine(s + "|" + lid):
                continue
            viols, cls = check_case(ref, [s, lid], LISTS)
            rec.case(cls, cls == "nonempty", sample=[s, lid])
            for v in viols:
                rec.violation(v["signature"], "search-list", [s, lid], v["observed"], v["expected"])
    if sh["index"] == 0:
        for v in overflow_pass(ref, LISTS, sh["tier"]):
            rec.violation(v["signature"], "overflow", v["case"], v["observed"], v["expected"])
        rec.case("overflow-pass", True)
    rec.extra = {"lists": {k: len(v[0]) for k, v in LISTS.items()}}
    return rec.result()


def overflow_pass(ref, LISTS, tier, n=60, cap=16):
    """More distinct searches than the caches hold (capacity lowered to 16), then every one of them asked again: the
    answers of the second round equal those of the first (whose cases the main family judges one by one)."""
    from spil import FindInList
    from mc import env
    lid = sorted(LISTS)[0]
    L, opts = LISTS[lid]
    S = []
    for s in gen(ref, tier):
        if s not in S and "?" not in s:
            S.append(s)
        if len(S) >= n:
            break
    env.reset()
    env.set_cache_capacity(cap)
    out = []
    try:
        def ask(s):
            try:
                return sorted(FindInList(list(L), **opts).find(s, as_sid=False))
            except Exception as e:  # noqa
                return "EXC " + type(e).__name__
        first = [ask(s) for s in S]
        second = [ask(s) for s in S]
        third = [ask(s) for s in reversed(S)][::-1]
        for s, a, b, c in zip(S, first, second, third):
            if not (a == b == c):
                out.append(dict(signature="answer-changes-after-cache-overflow", case=[s, lid], observed=[b if b != a else c][0], expected=a))
                break
    finally:
        env.set_cache_capacity(None)
        env.reset()
    return out


def replay_case(kind, case):
    if kind == "overflow":
        from mc.ref.model import Conf
        ref = Conf()
        return [dict(v) for v in overflow_pass(ref, lists(ref, "thorough"), "quick")]
    from mc.ref.model import Conf
    ref = Conf()
    return check_case(ref, case, lists(ref, "quick") if case[1] in lists(ref, "quick") else lists(ref, "thorough"))[0]


def coverage(m, tier, seed):
    return {"bounds": {"k": 2 if tier == "thorough" else 1}, "exhaustive": True, "lists": m["extra"][:1]}
