"""C20 - the guarantees hold for any well-formed configuration, not only the demo one.

E4: a family of complete configuration packages generated from a declarative specification of the demo configuration
by 12 data-level operators (identity, every single operator, all together; thorough: every pair = 80 packages).  Each
package is validated (conventions of C20), written to a scratch directory that is first on the python path of a fresh
process, and the E1 checks of C01-C08 and C11 run unchanged at reduced bounds: their oracles read whatever
configuration is loaded.
"""
from __future__ import annotations
import importlib
from mc.rec import Recorder

ID = "C20"
LEVEL = "exploration"
ENGINE = "E4-configuration-enumeration"
TECHNIQUE = "exhaustive enumeration of a generated configuration family; per configuration the bounded-exhaustive input checks of C01-C08, C11"
RULE = ("configurations = identity + each of 12 operators (rename keys, rename basetypes, type codes, rename leaf key, insert "
        "level, remove level, file-name separator, fixed folders, vocabularies, digit patterns, third basetype, third path "
        "configuration) + all together (thorough: + all 66 pairs); per configuration, in fresh processes: C01 (product to 3 "
        "segments, k<=1), C02/C03 (full product with 1 value + '*' per key), C04 (single pairs), C05 (full product, 2 "
        "values), C06 (k<=1, 1 variant), C07 (k<=1), C08 (star subsets + partial globs), C11 (sparse universe, junk none / "
        "all kinds, k<=1). distinct = distinct (configuration, sub-check case); non-trivial as in the sub-checks.")
ASSUMPTIONS = ["generated packages follow the documented conventions (validated before use; binding of the identity package "
               "to the repository's demo package is reported in the evidence)"]
SUBS = ["c01", "c02", "c03", "c04", "c05", "c06", "c07", "c08", "c11", "c12"]


def plan(tier, seed):
    from mc import confgen
    fam = confgen.family(tier)
    shards = []
    for name, spec in fam.items():
        errs = confgen.validate(spec)
        if errs:
            raise RuntimeError(f"generated configuration {name} is not well-formed (generator error, no verdict): {errs[:3]}")
        for sub in SUBS:
            shards.append({"config": name, "sub": sub, "conf_src": "gen:" + name})
    return {"shards": shards}


def _sub_shards(sub, first):
    if sub == "c12":
        return [{"mode": "world"}]
    if sub == "c05":
        return [{"index": 0, "count": 1, "first": first}]
    if sub == "c11":
        return [{"universe": "sparse", "variant": "none", "kinds": []},
                {"universe": "sparse", "variant": "all-kinds", "kinds": list(importlib.import_module("props.c11").JUNK_KINDS)}]
    return [{"index": 0, "count": 1}]


def run_shard(sh):
    from mc.ref.confview import load_private
    mod = importlib.import_module("props." + sh["sub"])
    names = list(load_private("spil_data_conf").path_configs)
    rec = Recorder(0, 1, sh["seed"])
    for sub in _sub_shards(sh["sub"], names[0]):
        sub = dict(sub, tier="c20", seed=sh["seed"])
        r = mod.run_shard(sub)
        rec.evaluations += r["evaluations"]
        rec.distinct += r["distinct"]
        rec.nontrivial += r["nontrivial"]
        for k, v in r["classes"].items():
            rec.classes[sh["sub"] + ":" + k] += v
        for sig, lst in r["violations"].items():
            for v in lst:
                rec.violation(sh["sub"].upper() + "/" + sig, "sub", {"config": sh["config"], "sub": sh["sub"], "kind": v["kind"], "case": v["case"]},
                              v["observed"], v["expected"])
            rec.viol_count[sh["sub"].upper() + "/" + sig] += r["viol_count"][sig] - len(lst)
        for s in r["samples"][:1]:
            if len(rec.samples) < 3:
                rec.samples.append({"outcome": s["outcome"], "case": {"config": sh["config"], "sub": sh["sub"], "case": s["case"]}})
    rec.extra = {"config": sh["config"], "sub": sh["sub"], "evaluations": rec.evaluations}
    res = rec.result()
    for sig, lst in res["violations"].items():
        for v in lst:
            v["env"] = {"conf_src": "gen:" + sh["config"]}
    return res


def replay_case(kind, case):
    mod = importlib.import_module("props." + case["sub"])
    out = mod.replay_case(case["kind"], case["case"])
    for v in out:
        v["signature"] = case["sub"].upper() + "/" + v["signature"]
    return out


def coverage(m, tier, seed):
    from mc import confgen
    import tempfile, shutil, os
    d = tempfile.mkdtemp(prefix="spilverif-bind-")
    try:
        diffs = confgen.binding_report(os.path.join(os.environ.get("VERIF_REPO", "/repo"), "spil_hamlet_conf"), confgen.render(confgen.DEMO, os.path.join(d, "identity")))
    except Exception as e:  # noqa
        diffs = [("binding check failed to run", repr(e)[:200], "")]
    finally:
        shutil.rmtree(d, ignore_errors=True)
    per = {}
    for e in m["extra"]:
        per.setdefault(e["config"], {})[e["sub"]] = e["evaluations"]
    return {"exhaustive": True, "configurations": len(per), "per_configuration": per,
            "identity_package_equals_repository_demo_package": not diffs, "binding_differences": [str(x)[:300] for x in diffs[:5]]}
