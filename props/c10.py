"""C10 - search results obey the algebra of the search syntax (metamorphic, no reference model involved).

E1: for every search of the C07 family and every applicable rewrite rule, on every Finder and universe:
 (1) ',' list == union of alternatives   (2) alias == union of members   (3) '**' == union over n of the leaf-typed
 '/*'-filled searches   (4) s?k=v == {r in find(s): r[k]==v} for k common to all typed searches   (5) '*' -> literal v ==
 {r in find(s): segment == v};  results unique, typed, and matching the search.
"""
from __future__ import annotations
import itertools
from mc.rec import Recorder
from mc import searchgen, worlds

ID = "C10"
LEVEL = "exploration"
RULE = ("inputs = (universe, finder, search, rule instance): searches = star subsets + <=k edits of the C07 menu on bases "
        "drawn from the universe; rule instances = every comma segment, every alias, every '**', every key common to all "
        "typed searches x (each value occurring in the results + one absent value), every '*' position x (each occurring "
        "value + one absent); finders = FindInList, FindInPaths(local), FindInAll. distinct = distinct (universe, search); "
        "non-trivial = at least one rule instance has a non-empty side.")
ASSUMPTIONS = ["rules 4 and 5 are applied to searches without '>' (a filter changes which entry is last)",
               "rule 3 restricts the *searches* to leaf types, as the statement says"]


def find(f, s):
    return list(f.find(s, as_sid=False))


def rule_instances(ref, s, typed, R):
    """yield (rule, description, list of derived searches | callable, filter or None)"""
    path, _, q = s.partition("?")
    segs = path.split("/")
    qs = ("?" + q) if q else ""
    # (1) comma lists, one segment at a time
    for i, sg in enumerate(segs):
        if "," in sg and not (i == len(segs) - 1 and any(a.strip() in ref.alias for a in sg.split(","))):
            alts = [a.strip() for a in sg.split(",")]
            yield ("comma", i, ["/".join(segs[:i] + [a] + segs[i + 1:]) + qs for a in alts], None)
    # (2) alias as last segment
    if segs[-1] in ref.alias:
        yield ("alias", segs[-1], ["/".join(segs[:-1] + [m]) + qs for m in ref.alias[segs[-1]]], None)
    if "," in segs[-1] and any(a.strip() in ref.alias for a in segs[-1].split(",")):
        members = []
        for a in segs[-1].split(","):
            members += ref.alias.get(a.strip(), [a.strip()])
        yield ("alias", segs[-1], ["/".join(segs[:-1] + [m]) + qs for m in members], None)
    # (1b) a ',' list, or an alias, as a filter value (distributed like one in the path)
    if q and "?" not in q:
        pairs = [pq.split("=", 1) for pq in q.split("&") if "=" in pq]
        leaf_keys = {v for v in ref.leaf_keys.values() if v}
        for i, (k, v) in enumerate(pairs):
            alts = None
            if "," in v:
                alts, rule = [a.strip() for a in v.split(",")], "comma"
                if k in leaf_keys and any(a in ref.alias for a in alts):
                    alts, rule = [m for a in alts for m in ref.alias.get(a, [a])], "alias"
            elif k in leaf_keys and v in ref.alias:
                alts, rule = list(ref.alias[v]), "alias"
            if alts:
                yield (rule, ["filter", k], [path + "?" + "&".join("=".join(p2) if j != i else k + "=" + a for j, p2 in enumerate(pairs)) for a in alts], None)
    if ">" in s:
        return
    # (4) filters on keys every typed search has
    if not q and typed:
        common = set(ref.keys(typed[0][0]))
        for t, _ in typed[1:]:
            common &= set(ref.keys(t))
        for k in sorted(common):
            # a filter *restricts* only where the search leaves the key open; on a literal value it is an overlay that
            # replaces it (that is C04's subject). The rule is applied to keys that are '*' in every typed search.
            if not all((ref.forced(st, t) or {}).get(k) == "*" for t, st in typed):
                continue
            vals = []
            for r in R:
                d = _fields(ref, r, typed)
                if d and d.get(k) not in vals:
                    vals.append(d.get(k))
            vals = [v for v in vals if v and not (set(v) & set("&=?#%+; ,~"))]  # URL metacharacters are not query values
            for v in vals[:4] + ["zz9"]:
                yield ("filter", [k, v], [s + "?" + k + "=" + v], ("field", k, v))
    # (5) '*' replaced by a literal
    if "**" not in s and not q:      # with a filter the literal may be overlaid again: rule 5 is stated for plain searches
        for i, sg in enumerate(segs):
            if sg == "*":
                vals = []
                for r in R:
                    p = r.split("/")
                    if len(p) > i and p[i] not in vals:
                        vals.append(p[i])
                for v in vals[:4] + ["zz9"]:
                    yield ("literal", [i, v], ["/".join(segs[:i] + [v] + segs[i + 1:]) + qs], ("segment", i, v))


def _fields(ref, r, typed):
    for t, _ in typed:
        d = ref.forced(r, t)
        if d is not None:
            return d
    t, d = ref.natural(r)
    return d


def check_case(ref, W, fs, s):
    from spil import Sid, SpilException
    from spil.sid.read.tools import unfold_search
    out = []
    n_inst = 0

    def bad(sig, obs, exp):
        out.append(dict(signature=sig, observed=obs, expected=exp))

    try:
        unf = unfold_search(s)
    except SpilException:
        return out, "spilexc", 0
    typed = [(u.type, u.string) for u in unf if u.type and "?" not in u.string]
    if len(typed) != len(unf):
        bad("unfolding-contains-untyped-or-unapplied-query-sid", [u.uri for u in unf if not u.type or "?" in u.string][:4], "typed searches only (C07)")
    for fname, f in fs.items():
        try:
            Rl = find(f, s)
        except Exception as e:  # noqa
            bad(f"exception/{type(e).__name__}/{fname}", repr(e)[:120], "a result")
            continue
        R = set(Rl)
        if len(R) != len(Rl):
            bad(f"duplicates/{fname}", Rl[:6], "unique")
        # the Sid objects a Finder hands out are the typed Sids of those strings
        try:
            objs = list(f.find(s))
            wrong = [(o.uri, Sid(str(o)).uri) for o in objs[:60] if (not o) or o.uri != Sid(str(o)).uri]
            if wrong or [str(o) for o in objs] != Rl:
                bad(f"result-objects-are-not-the-typed-sids-of-the-result-strings/{fname}", wrong[:3] or [str(o) for o in objs][:4], Rl[:4])
        except Exception as e:  # noqa
            bad(f"exception/{type(e).__name__}/{fname}/as-sid", repr(e)[:120], "a result")
        for r in Rl[:40]:
            x = Sid(r)
            if not x:
                bad(f"untyped-result/{fname}", r, "typed")
                break
            if ">" not in s and not x.match(s):
                bad(f"result-does-not-match-search/{fname}", [r, s], "match")
                break
        # (3) '**': the same search with '**' replaced by 0..n '/*' levels, restricted to the leaf-typed readings of the
        #     filled string (the filter is applied to each of them afterwards, as for any typed search)
        path_part, _, q_part = s.partition("?")
        # (no alias name anywhere in the path: filling '**' with zero levels would make another segment the last one,
        #  and aliases are expanded in the last segment only)
        if s.count("/**") == 1 and "," not in path_part and not any(sg in ref.alias for sg in path_part.split("/")) and ">" not in s:
            acc = set()
            try:
                for n in range(0, ref.maxlen + 1):
                    filled = path_part.replace("/**", "/*" * n)
                    for t in ref.all_types(filled):
                        if ref.is_leaf_type(t):
                            acc |= set(find(f, t + ":" + filled + ("?" + q_part if q_part else "")))
                n_inst += 1
                if acc != R:
                    bad(f"dstar-differs-from-union-of-star-fillings/{fname}", [sorted(R - acc)[:4], sorted(acc - R)[:4]], "equal")
            except SpilException:
                pass
        for rule, desc, derived, flt in rule_instances(ref, s, typed, R):
            n_inst += 1
            try:
                D = set()
                for ds in derived:
                    D |= set(find(f, ds))
            except SpilException:
                continue
            except Exception as e:  # noqa
                bad(f"exception/{type(e).__name__}/{fname}", repr(e)[:120], "a result")
                continue
            if flt is None:
                if ">" in s:
                    continue  # union of lasts is not the last of the union
                if D != R:
                    bad(f"{rule}-differs-from-union/{fname}", [desc, sorted(R - D)[:4], sorted(D - R)[:4]], "equal")
            else:
                if flt[0] == "field":
                    want = {r for r in R if (_fields(ref, r, typed) or {}).get(flt[1]) == flt[2]}
                else:
                    want = {r for r in R if r.split("/")[flt[1]] == flt[2]}
                if D != want:
                    sig = f"{rule}-rewrite-is-not-the-matching-subset/{fname}"
                    if fname == "all" and (D - R):
                        # a constants-backed level answers for a literal parent that nothing else finds
                        extra_types = {ref.natural(e)[0] for e in D - want}
                        if extra_types and all(t in W.sources for t in extra_types):
                            sig += "/constants-level-under-unverified-literal-parent"
                    bad(sig, [desc, sorted(D - want)[:4], sorted(want - D)[:4]], "equal")
    return out, ("instances" if n_inst else "no-rule-applies"), n_inst


def searches(ref, W, k):
    from props import c11
    yield from c11.searches(ref, W, "thorough" if k >= 2 else "quick")


def plan(tier, seed):
    unis = ["sparse", "one-basetype"] + (["full", "names-only"] if tier == "thorough" else [])
    shards = []
    for u in unis:
        n = 16 if (tier == "thorough" and u == "sparse") else 8
        shards += [{"universe": u, "index": i, "count": n} for i in range(n)]
    return {"shards": shards}


def run_shard(sh):
    from mc.ref.model import Conf
    from mc import env
    ref = Conf()
    W = worlds.World(ref, worlds.universes(ref, "thorough")[sh["universe"]], sh["universe"])
    W.materialize()
    fs = W.finders()
    fs = {"list": fs["list"], "paths": fs[W.names[0]], "all": fs["all"]}
    rec = Recorder(sh["index"], sh["count"], sh["seed"])
    k = 2 if (sh["tier"] == "thorough" and sh["universe"] == "sparse") else 1
    total = 0
    for s in searches(ref, W, k):
        if not rec.mine(sh["universe"] + "|" + s):
            continue
        env.reset()
        v, cls, n = check_case(ref, W, fs, s)
        total += n
        rec.case(cls, cls == "instances", sample=[sh["universe"], s])
        for x in v:
            rec.violation(x["signature"], "search", [sh["universe"], s], x["observed"], x["expected"])
    rec.extra = {"relation_instances": total, "universe": sh["universe"]}
    return rec.result()


def replay_case(kind, case):
    from mc.ref.model import Conf
    from mc import env
    ref = Conf()
    W = worlds.World(ref, worlds.universes(ref, "thorough")[case[0]], case[0])
    W.materialize()
    fs = W.finders()
    fs = {"list": fs["list"], "paths": fs[W.names[0]], "all": fs["all"]}
    env.reset()
    return check_case(ref, W, fs, case[1])[0]


def coverage(m, tier, seed):
    return {"bounds": {"k": "2 on the sparse universe, 1 elsewhere" if tier == "thorough" else 1}, "exhaustive": True,
            "relation_instances": sum(e.get("relation_instances", 0) for e in m["extra"])}
