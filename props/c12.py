"""C12 - exists, find_one, children and siblings agree with find.

E2: breadth-first over the trees reachable by creating entities from a menu (creation is the only mutation spil offers;
the space is monotone, the search runs to closure); in every state, for every Finder and every search of a menu:
exists == bool(find), find_one == first(find), as_sid=False == strings; for every Sid of the closure (+ non-existing,
untyped): exists / children / siblings against the statement evaluated on the reference store; leaves have no children;
whatever exists on the file system has an existing parent.  Stateless part: create sequences without any reset.
"""
from __future__ import annotations
import itertools, json
from mc.rec import Recorder
from props import c15

ID = "C12"
LEVEL = "model_checking"
ENGINE = "E2-explicit-state-histories"
TECHNIQUE = "explicit-state BFS to closure over create histories (state = canonical file tree), per-state relational oracles on the real API"
RULE = ("states = every tree reachable by create() over a menu of entities (two files sharing a folder, another version, a "
        "second asset, a movie file, a folder-level entity, a shot file, a cache-node file), BFS with de-duplication on the "
        "canonical tree until closure; transitions = real WriteToPaths.create calls on a restored tree with cold caches. "
        "In every state: 3 Finders x search menu (exists / find_one / as_sid relations), every Sid of the closure + "
        "non-existing + untyped Sids (exists / children / siblings / leaf / parent relations). distinct = distinct trees.")
ASSUMPTIONS = ["existence of constants-backed levels = constants under an existing parent (mc/ref/store.py)"]


def entities(C, tier):
    from mc import universe
    ref = C["ref"]
    E = dict(C["E"])
    out = {"F1": E["F1"], "F2": E["F2"], "F3": E["F3"], "M1": E["M1"], "D1": E["D1"]}
    if "K1" in E:
        out["K1"] = E["K1"]   # movie and cache files share a folder (and a glob pattern when the extension is open)
    # second asset file, a shot file and a shot cache-node file
    f1 = E["F1"].split("/")
    names = [i for i, (k, p) in enumerate(ref.templates[ref.natural(E["F1"])[0]]) if p is None]
    a2 = list(f1)
    a2[names[0]] = "ab-c"
    out["A2"] = "/".join(a2)
    conc = universe.one_per_type(ref, rep=1)
    leafs = [t for t in ref.types if ref.is_leaf_type(t)]
    other_base = [t for t in leafs if ref.basetype(t) != ref.basetype(ref.natural(E["F1"])[0])]
    if other_base:
        out["S1"] = conc[other_base[0]]
        longest = max(other_base, key=lambda t: len(ref.keys(t)))
        if len(ref.keys(longest)) > len(ref.keys(other_base[0])):
            out["N1"] = conc[longest]
            # a node file whose node is spelled like an extension: its Sid parent string is also a (leaf) cache file
            n1 = conc[longest].split("/")
            ext = n1[-1]
            nc = n1[:-2] + [ext, ext]
            sc = n1[:-2] + [ext]
            if ref.natural("/".join(nc))[0] == longest and ref.natural("/".join(sc))[0] and ref.is_leaf_type(ref.natural("/".join(sc))[0]):
                out["NC"] = "/".join(nc)
                out["SC"] = "/".join(sc)
    if tier != "thorough":
        for k in ("D1", "A2", "F2"):       # (F3, the second version of F1's task, stays: a '>' needs two candidates)
            out.pop(k, None)
    return out


def candidates(C, ents, st):
    """Candidate universe for the relational statements: prefixes of all menu entities, constants under them."""
    ref = C["ref"]
    cand = set()
    for s in ents.values():
        parts = s.split("/")
        for i in range(1, len(parts) + 1):
            cand.add("/".join(parts[:i]))
    for typ, src in st.sources.items():
        keys = ref.keys(typ)
        for c in list(cand):
            t = ref.natural(c)[0]
            if t and len(ref.keys(t)) == len(keys) - 1:
                for v in src["values"]:
                    if ref.natural(c + "/" + v)[0] == typ:
                        cand.add(c + "/" + v)
        if len(keys) == 1:
            for v in src["values"]:
                if ref.natural(v)[0] == typ:
                    cand.add(v)
    return {c for c in cand if ref.natural(c)[0]}


def search_menu(C, ents):
    out = []
    for s in list(ents.values())[:4]:
        f = s.split("/")
        n = len(f)
        out += [s, "/".join(f[:-1] + ["*"]), "/".join(f[:-2] + ["*", "*"]), "/".join(f[:2] + ["**"]), "/".join(f[:n - 3] + [">"] + f[n - 2:]),
                "/".join(f[:n - 3] + ["*"]), "/".join(f[:4]), "/".join(f[:3] + ["*"]), "/".join(f[:n - 1]), "/".join(f[:n - 2] + ["*"]),
                "/".join(f[:-1] + ["zz"]), "/".join(f[:1] + ["*"]), "*"]
    out += ["bla", "bla/*", ""]
    res = []
    for s in out:
        if s not in res:
            res.append(s)
    return res


def check_state(C, ents, created):
    from spil import Sid, FindInPaths, FindInAll, FindInList, SpilException
    from mc import env
    from mc.ref.store import Store, sources_for_demo
    from mc.ref.confview import load_private
    env.reset()
    ref = C["ref"]
    c0 = C["names"][0]
    st = Store(ref, C["prs"][c0], [ents[e] for e in created], sources_for_demo(load_private("spil_sid_conf")))
    out = []

    def bad(sig, obs, exp):
        out.append(dict(signature=sig, observed=obs, expected=exp))

    # the list also holds lines that are no Sids of the configuration (a sibling with an unknown value, a header line): the
    # relations between find / find_one / exists / as_sid are stated for whatever find yields
    L = st.list_for_paths()
    L = L + sorted({"/".join(e.split("/")[:-1] + ["zz8"]) for e in L if "/" in e})[:6] + ["# listing", "bla/bla"]
    finders = {"paths": FindInPaths(c0), "all": FindInAll(), "list": FindInList(L)}
    for s in search_menu(C, ents):
        for fn, f in finders.items():
            try:
                full = list(f.find(s))
                strs = list(f.find(s, as_sid=False))
                ex = f.exists(s)
                one = f.find_one(s)
                one_s = f.find_one(s, as_sid=False)
            except SpilException:
                continue
            except Exception as e:  # noqa
                bad(f"finder-raises/{type(e).__name__}/{fn}", [s, repr(e)[:80]], "answers")
                continue
            if [str(x) for x in full] != strs:
                bad(f"as_sid-false-is-not-the-strings/{fn}", [s, strs[:4]], [str(x) for x in full][:4])
            # other spellings of the same calls: the flag passed positionally, the search handed over as a Sid object
            try:
                alt = {"find(s,False)": list(f.find(s, False)) == strs, "find_one(s,False)": f.find_one(s, False) == one_s,
                       "find(s,True)": [x.uri for x in f.find(s, True)] == [x.uri for x in full],
                       "find(Sid(s))": [x.uri for x in f.find(Sid(s))] == [x.uri for x in full], "exists(Sid(s))": f.exists(Sid(s)) == ex}
            except Exception as e:  # noqa
                alt = {f"raises-{type(e).__name__}": False}
            for k, ok in alt.items():
                if not ok:
                    bad(f"same-call-other-spelling-differs/{k}/{fn}", [s], "same answer")
            if ex != bool(full):
                bad(f"exists-differs-from-find/{fn}", [s, ex], bool(full))
            if full:
                if not (one == full[0]) or one_s != strs[0]:
                    bad(f"find_one-is-not-first-of-find/{fn}", [s, getattr(one, "uri", one), one_s], [full[0].uri, strs[0]])
            else:
                if one or one_s:
                    bad(f"find_one-on-empty-result/{fn}", [s, getattr(one, "uri", one), one_s], "empty Sid / None")
    # relational statements on Sids
    cand = candidates(C, ents, st)
    out += check_relations(ref, C["prs"][c0], st, cand)
    return out


def check_relations(ref, pr, st, cand):
    """exists / children / siblings / leaf / parent statements for every candidate Sid against the reference store."""
    from spil import Sid
    out = []

    def bad(sig, obs, exp):
        out.append(dict(signature=sig, observed=obs, expected=exp))

    E_all = {c for c in cand if st.exists_all(c)}

    def parent_of(s):
        # one-field Sids are the roots: they are each other's siblings (children of the implicit root), although
        # Sid.parent of a root is the root itself
        return "/".join(s.split("/")[:-1]) if "/" in s else ""

    probe = sorted(cand) + ["bla/bla", "hamlet/zz"]
    for s in probe:
        x = Sid(s)
        try:
            ex = x.exists()
            ch = x.children()
            sb = x.siblings() if x else []
        except Exception as e:  # noqa
            bad(f"sid-navigation-raises/{type(e).__name__}", [s, repr(e)[:80]], "answers")
            continue
        want_ex = s in E_all
        if ex != want_ex:
            bad("sid-exists-differs", [s, ex], want_ex)
        if not x:
            if ch or sb:
                bad("untyped-sid-has-children-or-siblings", [s], "none")
            continue
        want_ch = {e for e in E_all if "/" in e and parent_of(e) == s}
        got_ch = {str(c) for c in ch}
        if len(got_ch) != len(ch):
            bad("children-duplicates", [s, [str(c) for c in ch][:6]], "unique")
        is_leaf = ref.is_leaf_type(x.type)
        if bool(x.is_leaf()) != is_leaf:
            bad("is_leaf-differs-from-the-configured-leaf-key-of-the-basetype", [s, x.is_leaf()], is_leaf)
        if is_leaf:
            if ch:
                bad("leaf-has-children", [s, sorted(got_ch)[:4]], [])
        elif got_ch != want_ch:
            sig = "children-differ"
            missing = want_ch - got_ch
            if missing and not (got_ch - want_ch) and all(ref.natural(m)[0] and not pr.has_path(ref.natural(m)[0]) and ref.natural(m)[0] not in st.sources for m in missing):
                sig += "/level-without-data-source"
            bad(sig, [s, sorted(got_ch)[:5]], sorted(want_ch)[:5])
        want_sb = {e for e in E_all if parent_of(e) == parent_of(s) and len(e.split("/")) == len(s.split("/"))}
        got_sb = {str(c) for c in sb}
        if got_sb != want_sb:
            bad("siblings-differ", [s, sorted(got_sb)[:5]], sorted(want_sb)[:5])
        # the same Sid built another way (from its fields given in another order) navigates the same
        try:
            y = Sid(fields=dict(reversed(list(x.fields.items()))))
            same = (y == x and y.exists() == ex and {str(c) for c in y.children()} == got_ch and {str(c) for c in y.siblings()} == got_sb
                    and y.parent == x.parent)
            if not same:
                bad("sid-built-from-unordered-fields-navigates-differently", [s, y.uri, sorted(str(c) for c in y.siblings())[:4], y.parent.uri], [sorted(got_sb)[:4], x.parent.uri])
        except Exception as e:  # noqa
            bad(f"sid-navigation-raises/{type(e).__name__}/built-from-fields", [s, repr(e)[:80]], "answers")
    # whatever exists on the file system has an existing parent
    for e in sorted(st.paths):
        if "/" in e:
            p = Sid(e).parent
            if not p.exists():
                sig = "existing-entity-without-existing-parent"
                if p and not pr.has_path(p.type) and p.type not in st.sources:
                    sig += "/parent-level-without-data-source"
                bad(sig, [e, p.uri], "parent exists")
                break
    return out


def plan(tier, seed):
    shards = [{"mode": "bfs"}, {"mode": "linked"}]
    n = 6 if tier == "thorough" else 2
    shards += [{"mode": "stateless", "index": i, "count": n} for i in range(n)]
    if tier == "thorough":
        shards = [{"mode": "bfs", "first": i} for i in range(9)] + shards[1:]
    return {"shards": shards}


def run_linked(sh=None):
    """One fixed world with an entity whose folder is a symbolic link to a folder outside the project root (an asset kept on
    another volume and linked in): it exists, is listed by its parent and its siblings, and lists its own children."""
    import os
    from mc import env, tree
    from mc.ref.store import Store, sources_for_demo
    from mc.ref.confview import load_private
    C = c15.ctx()
    ref, c0 = C["ref"], C["names"][0]
    pr = C["prs"][c0]
    ents = {k: v for k, v in entities(C, "quick").items() if k in ("F1", "M1", "F3")}
    f1 = ents["F1"].split("/")
    opens = [i for i, (k, p) in enumerate(ref.templates[ref.natural(ents["F1"])[0]]) if p is None]
    rec = Recorder(0, 1, (sh or {}).get("seed", 0))
    if not opens:
        return rec.result()
    ai = opens[0]
    lk = "/".join(f1[:ai] + ["lnk"])                      # the linked asset
    below = "/".join(f1[:ai] + ["lnk"] + f1[ai + 1:ai + 2])  # a task folder inside it
    env.clear_tree()
    tree.materialize(ref, pr, list(ents.values()))
    ext = os.path.join(os.environ["VERIF_WORKDIR"], "other_volume", "lnk")
    os.makedirs(os.path.join(ext, os.path.basename(tree.entity_path(ref, pr, below)[0])), exist_ok=True)
    os.symlink(ext, tree.entity_path(ref, pr, lk)[0])
    env.reset()
    ents2 = dict(ents, LK=lk, LB=below)
    st = Store(ref, pr, list(ents2.values()), sources_for_demo(load_private("spil_sid_conf")))
    for v in check_relations(ref, pr, st, candidates(C, ents2, st)):
        if "parent-level-without-data-source" in v["signature"]:
            continue
        rec.violation(v["signature"] + "/entity-folder-is-a-link", "linked", {}, v["observed"], v["expected"])
    rec.case("linked-entity-world", True)
    return rec.result()


def run_world(sh):
    """The relational statements (exists / children / siblings / leaf) on one generated universe of whatever
    configuration is loaded (used by C20: no assumption about key or type names)."""
    from mc.ref.model import Conf
    from mc import worlds, env
    ref = Conf()
    W = worlds.World(ref, worlds.universes(ref, "quick")["sparse"], "sparse")
    W.materialize()
    env.reset()
    rec = Recorder(0, 1, sh["seed"])
    cand = set()
    for s in W.leaves:
        parts = s.split("/")
        for i in range(1, len(parts) + 1):
            cand.add("/".join(parts[:i]))
    for typ, src in W.store.sources.items():
        keys = ref.keys(typ) if typ in ref.templates else []
        for c in list(cand):
            t = ref.natural(c)[0]
            if t and keys and len(ref.keys(t)) == len(keys) - 1:
                for v in src["values"]:
                    if ref.natural(c + "/" + v)[0] == typ:
                        cand.add(c + "/" + v)
        if len(keys) == 1:
            for v in src["values"]:
                if ref.natural(v)[0] == typ:
                    cand.add(v)
    cand = {c for c in cand if ref.natural(c)[0]}
    viols = check_relations(ref, W.prs[W.names[0]], W.store, cand)
    rec.evaluations = rec.distinct = rec.nontrivial = len(cand)
    rec.classes["sid-relations"] = len(cand)
    rec.samples.append({"outcome": "sid-relations", "case": sorted(cand)[:3]})
    for v in viols:
        rec.violation(v["signature"], "world", {"universe": "sparse"}, v["observed"], v["expected"])
    return rec.result()


def run_shard(sh):
    if sh.get("mode") == "world":
        return run_world(sh)
    if sh.get("mode") == "linked":
        return run_linked(sh)
    from mc import env, tree, bfs
    C = c15.ctx()
    ents = entities(C, sh["tier"])
    c0 = C["names"][0]
    root = C["prs"][c0].root()
    rec = Recorder(0, 1, sh["seed"])
    names = list(ents)
    OPS = [["create", e] for e in names]

    def apply_real(op):
        from spil import WriteToPaths, SpilException
        env.reset()
        try:
            return WriteToPaths(c0).create(ents[op[1]])
        except SpilException:
            return ["EXC", "SpilException"]
        except Exception as e:  # noqa
            return ["EXC", type(e).__name__]

    def model_apply(model, op):
        from mc.ref.store import Store
        st = Store(C["ref"], C["prs"][c0], [ents[e] for e in model])
        if ents[op[1]] in st.paths:
            return model, ["EXC", "SpilException"]
        return tuple(sorted(set(model) | {op[1]})), True

    def model_key(model):
        from mc.ref.store import Store
        return tuple(sorted(Store(C["ref"], C["prs"][c0], [ents[e] for e in model]).paths))

    if sh["mode"] == "bfs":
        env.clear_tree()
        model = ()
        hist = []
        if "first" in sh:
            if sh["first"] >= len(OPS):
                return rec.result()
            op = OPS[sh["first"]]
            apply_real(op)
            model, _ = model_apply(model, op)
            hist = [op]
        ex = bfs.Explorer(rec, lambda s: tree.restore(root, s), lambda: tree.snapshot(root), apply_real, model_apply, model_key,
                          lambda m, h: check_state(C, ents, m), OPS, len(OPS) + 1)
        ex.run(hist, model)
        rec.extra = {"mode": "bfs", "entities": names, "closed": ex.closed, "depth_reached": ex.depth_reached}
    else:
        L = 3
        for si, seq in enumerate(itertools.permutations(names, min(L, len(names)))):
            if si % sh["count"] != sh["index"]:
                continue
            env.clear_tree()
            env.reset()
            model = ()
            from spil import WriteToPaths, SpilException
            real = env.reset
            env.reset = lambda *a, **k: None
            try:
                for e in seq:
                    try:
                        WriteToPaths(c0).create(ents[e])
                    except SpilException:
                        pass
                    model = tuple(sorted(set(model) | {e}))
                    rec.transitions += 1
                    # observations after every step, no reset anywhere
                    for v in check_state(C, ents, model):
                        rec.violation("no-reset/" + v["signature"], "sequence", {"hist": [["create", x] for x in seq[: seq.index(e) + 1]], "tier": sh["tier"]}, v["observed"], v["expected"])
            finally:
                env.reset = real
            rec.traces += 1
            rec.case("create-sequence-no-reset", True, sample=list(seq))
        rec.extra = {"mode": "stateless"}
    res = rec.result()
    for sig, lst in res["violations"].items():
        for v in lst:
            v["case"]["tier"] = sh["tier"]
    return res


def replay_case(kind, case):
    if kind == "world":
        r = run_world({"seed": 0})
        return [v for lst in r["violations"].values() for v in lst]
    if kind == "linked":
        return [v for lst in run_linked()["violations"].values() for v in lst]
    from mc import env
    C = c15.ctx()
    ents = entities(C, case.get("tier", "thorough"))
    c0 = C["names"][0]
    from spil import WriteToPaths, SpilException
    env.clear_tree()
    env.reset()
    noreset = kind == "sequence"
    real = env.reset
    if noreset:
        env.reset = lambda *a, **k: None
    out = []
    try:
        model = ()
        for op in case["hist"]:
            if not noreset:
                env.reset()
            try:
                WriteToPaths(c0).create(ents[op[1]])
            except SpilException:
                pass
            model = tuple(sorted(set(model) | {op[1]}))
            if noreset:
                out = check_state(C, ents, model)     # observations after every step, no reset anywhere
        if not noreset:
            out = check_state(C, ents, model)
        else:
            for v in out:
                v["signature"] = "no-reset/" + v["signature"]
    finally:
        env.reset = real
    return out


def coverage(m, tier, seed):
    return {"exhaustive": True, "explorers": m["extra"][:10]}
