"""C18 - get_last, get_next and get_new implement a gap-free version workflow.

E1: every subset of a 6-value version menu (incl. sparse and maximal values) x a second extension set, every task /
version / state / file Sid with the version absent, concrete (existing, non-existing, maximal), '*' or '>'.
E2: breadth-first over publishing histories create(x.get_new('version')) for four publishers, invariants on every transition.
"""
from __future__ import annotations
import itertools, re
from mc.rec import Recorder
from props import c15

ID = "C18"
LEVEL = "model_checking"
ENGINE = "E2-explicit-state-histories"
TECHNIQUE = "exhaustive enumeration of version sets x Sid shapes (single calls) + explicit-state BFS over publishing histories on the real API"
RULE = ("single calls = (version set, movie version set, Sid, call): version sets = all 128 subsets of {v001,v002,v003,v010,v011,v998,"
        "v999} created at file level (work scene file), x movie-file version sets {none, {v002}, {v999}}; Sids = task, version, "
        "state, scene file, movie file with the version absent / each of 8 concrete values / '*' / '>'; calls = get_last, "
        "get_next, get_new. histories = BFS over create(x.get_new('version')) for x in {task A, scene file A, movie file A, "
        "task B} to the depth bound, de-duplicated on the canonical tree. distinct = distinct (universe, Sid) / trees.")
ASSUMPTIONS = ["version format = the demo plug-in's ('v' + 3 digits)", "for the constants-backed state level existence follows its version"]

VERS = ["v001", "v002", "v003", "v010", "v011", "v998", "v999"]


def fmt(n):
    return "v%03d" % n


def num(v):
    return int(v[1:])


def ctx():
    C = c15.ctx()
    ref = C["ref"]
    E = C["E"]
    f1 = E["F1"].split("/")
    lt = ref.natural(E["F1"])[0]
    keys = ref.keys(lt)
    vi = keys.index("version")
    C["vi"] = vi
    C["task"] = f1[:vi]
    C["scene_tail"] = f1[vi + 1:]
    C["movie_tail"] = E["M1"].split("/")[vi + 1:]
    other = list(f1[:vi])
    tasks = [v for v in ref.accepted(lt, vi - 1, ref.literals()) if v != f1[vi - 1]]
    other[vi - 1] = tasks[0]
    C["taskB"] = other
    # versions the configured pattern accepts beyond the usual width (a pattern such as v\d\d\d\d? makes v1000 a version)
    C["VERS"] = list(VERS) + [v for v in ("v1000", "v1001") if ref.forced("/".join(f1[:vi] + [v]), ref.natural("/".join(f1[: vi + 1]))[0]) is not None]
    C["accepts"] = lambda v: ref.forced("/".join(f1[:vi] + [v]), ref.natural("/".join(f1[: vi + 1]))[0]) is not None
    return C


def mk(task, v, tail):
    return "/".join(task + ([v] if v else []) + (tail if v else []))


def universe_entities(C, S1, S2):
    return [mk(C["task"], v, C["scene_tail"]) for v in S1] + [mk(C["task"], v, C["movie_tail"]) for v in S2]


def build_universe(C, pr, S1, S2, linked=False):
    """Materialise the versions; linked: the greatest scene version's folder is a symbolic link to the previous one's folder
    (a version published by linking): it exists as a version, the scene file of that version does not."""
    import os
    from mc import env, tree
    env.clear_tree()
    if not (linked and len(S1) >= 2):
        tree.materialize(C["ref"], pr, universe_entities(C, S1, S2))
        return scopes(C, S1, S2)
    top, prev = sorted(S1, key=num)[-1], sorted(S1, key=num)[-2]
    tree.materialize(C["ref"], pr, universe_entities(C, [v for v in S1 if v != top], [v for v in S2 if v != top]))
    p_top = tree.entity_path(C["ref"], pr, mk(C["task"], top, []))[0]
    p_prev = tree.entity_path(C["ref"], pr, mk(C["task"], prev, []))[0]
    if not os.path.lexists(p_top):
        os.symlink(p_prev, p_top)
    sc = scopes(C, [v for v in S1 if v != top], [v for v in S2 if v != top])
    sc["version"] = sorted(set(sc["version"]) | {top})
    return sc


def scopes(C, S1, S2):
    """existing versions per scope."""
    return {"version": sorted(set(S1) | set(S2)), "scene": sorted(S1), "movie": sorted(S2)}


def sid_cases(C):
    """(string, scope name, version value or None)"""
    vals = C["VERS"] + ["v005", "v000", "*", ">"]
    t = C["task"]
    yield "/".join(t), "version", None
    for v in vals:
        yield mk(t, v, []), "version", v
        yield mk(t, v, C["scene_tail"][:1]), "version", v          # state level: follows the version
        yield mk(t, v, C["scene_tail"]), "scene", v
        yield mk(t, v, C["movie_tail"]), "movie", v


def expected(C, s, scope, v, existing):
    """-> dict call -> expected Sid string ('' = empty Sid)"""
    vi = C["vi"]
    segs = s.split("/")
    last = max(existing) if existing else None

    def with_version(nv):
        if nv is None:
            return ""
        if v is None:
            return "/".join(segs + [nv])
        return "/".join(segs[:vi] + [nv] + segs[vi + 1:])

    def succ(x):
        n = (num(x) if x else 0) + 1
        return fmt(n) if C["accepts"](fmt(n)) else None     # representable = accepted by the configured version pattern

    exp = {}
    exp["get_last"] = with_version(last) if last else ""
    if v is None:
        exp["get_next"] = with_version(fmt(1))
    elif v in ("*", ">"):
        exp["get_next"] = with_version(succ(last))
    else:
        exp["get_next"] = with_version(succ(v))
    exp["get_new"] = with_version(succ(last))
    return exp


def check_single(C, s, scope, v, ex):
    from spil import Sid
    out = []
    x = Sid(s)
    if not x:
        return [dict(signature="case-not-typed", observed=s, expected="typed")], "untyped"
    exp = expected(C, s, scope, v, ex[scope])
    got = {}
    for call in ("get_last", "get_next", "get_new"):
        try:
            r = getattr(x, call)("version")
            got[call] = r.string if r is not None else None
            if r is None or (r.string and not r) or (not r and r.string):
                got[call] = "INVALID:" + repr(r)
            # the key passed by keyword, and asked again: the same answer
            r2 = getattr(x, call)(key="version")
            r3 = getattr(Sid(x.uri), call)("version")
            if not (r2 == r and r3 == r and getattr(r2, "string", None) == getattr(r, "string", None) == getattr(r3, "string", None)):
                out.append(dict(signature=f"{call}-answer-changes-with-the-spelling-of-the-call", observed=[s, got[call], getattr(r2, "string", None), getattr(r3, "string", None)], expected="same answer"))
        except Exception as e:  # noqa
            got[call] = "EXC " + type(e).__name__
    for call in exp:
        if got[call] != exp[call]:
            sig = f"{call}-differs"
            if call == "get_new" and not ex[scope] and v not in (None, "*", ">"):
                sig += "/no-version-exists-but-sid-carries-one"
            elif isinstance(got[call], str) and got[call].startswith("EXC"):
                sig = f"{call}-raises/" + got[call].split()[1]
            out.append(dict(signature=sig, observed=[s, got[call]], expected=exp[call]))
    # get_new does not exist yet
    if exp["get_new"] and got["get_new"] == exp["get_new"]:
        nv = exp["get_new"].split("/")[C["vi"]]
        if nv in ex[scope]:
            out.append(dict(signature="get_new-returns-an-existing-version", observed=[s, got["get_new"]], expected="not existing"))
    return out, ("v=%s" % ("absent" if v is None else ("search" if v in "*>" else "concrete")))


def plan(tier, seed):
    shards = [{"mode": "single", "index": i, "count": 12} for i in range(12)]
    # the single-call family again on the second basetype (its leaf strings may fit several types)
    shards += [{"mode": "single", "index": i, "count": 6, "env": {"VERIF_C15_BASE": "1"}} for i in range(6)]
    pubs = 6
    shards += [{"mode": "bfs", "first": i} for i in range(pubs)]
    shards += [{"mode": "stateless", "index": i, "count": 4} for i in range(4)]
    return {"shards": shards}


def publishers(C):
    t = C["task"]
    return [("task-A", "/".join(t)), ("scene-A", mk(t, "*", C["scene_tail"])), ("movie-A", mk(t, "v001", C["movie_tail"])), ("task-B", "/".join(C["taskB"])),
            # the other spelling of "the next free version": get_next on a Sid whose version is '*' / '>' (asked again and again
            # by the same publisher between creations)
            ("scene-A/next", mk(t, "*", C["scene_tail"])), ("version-A/next", mk(t, ">", []))]


def run_shard(sh):
    from mc import env, tree, bfs
    C = ctx()
    ref = C["ref"]
    c0 = C["names"][0]
    pr = C["prs"][c0]
    root = pr.root()
    rec = Recorder(sh.get("index", 0), sh.get("count", 1), sh["seed"])
    if sh["mode"] == "single":
        subsets = [list(c) for r in range(0, len(C["VERS"]) + 1) for c in itertools.combinations(C["VERS"], r)]
        for S1 in subsets:
            for S2 in ([], ["v002"], ["v999"]):
                key = ",".join(S1) + "|" + ",".join(S2)
                if not rec.mine(key):
                    continue
                for linked in ((False, True) if (len(S1) >= 2 and not S2 and not sh.get("env")) else (False,)):
                    ex = build_universe(C, pr, S1, S2, linked)
                    env.reset()
                    for s, scope, v in sid_cases(C):
                        viols, cls = check_single(C, s, scope, v, ex)
                        rec.case(cls + ("/linked-version" if linked else ""), True, sample=[S1, S2, s])
                        for x in viols:
                            rec.violation(x["signature"] + ("/greatest-version-is-a-link" if linked else ""), "single", [S1, S2, s, scope, v, linked], x["observed"], x["expected"])
        res = rec.result()
        if sh.get("env"):
            for lst in res["violations"].values():
                for x in lst:
                    x["env"] = {"env": sh["env"]}         # confirmed on the same basetype
        return res
    # ---- publishing histories
    from spil import Sid, WriteToPaths, SpilException
    depth = 8 if sh["tier"] == "thorough" else 6
    PUB = publishers(C)
    OPS = [["publish", n] for n, _ in PUB]
    psid = dict(PUB)

    def scope_of(name):
        return {"task-A": ("A", "version"), "scene-A": ("A", "scene"), "movie-A": ("A", "movie"), "task-B": ("B", "version"),
                "scene-A/next": ("A", "scene"), "version-A/next": ("A", "version")}[name]

    def apply_real(op, reset=True):
        if reset:
            env.reset()
        x = Sid(psid[op[1]])
        try:
            new = x.get_next("version") if op[1].endswith("/next") else x.get_new("version")
            if not new:
                return ["none"]
            existed = new.exists()
            WriteToPaths(c0).create(new)
            return ["created", new.string, existed]
        except SpilException as e:
            return ["EXC", "SpilException", str(e)[:60]]
        except Exception as e:  # noqa
            return ["EXC", type(e).__name__]

    def model_apply(model, op):
        # model: dict scope -> tuple of versions
        who, sc = scope_of(op[1])
        m = {k: tuple(v) for k, v in model.items()}
        key = who + ":" + sc
        cur = m.get(key, ())
        last = max(cur, key=num) if cur else None          # "strictly increasing": the successor of the greatest version number
        n = (num(last) if last else 0) + 1
        if not C["accepts"](fmt(n)):
            return m, ["none"]
        nv = fmt(n)
        m[key] = tuple(sorted(set(cur) | {nv}))
        if sc != "version":
            vk = who + ":version"
            m[vk] = tuple(sorted(set(m.get(vk, ())) | {nv}))
        base = psid[op[1]].split("/")
        vi = C["vi"]
        if sc == "version":
            s = "/".join(base[:vi] + [nv])
        else:
            s = "/".join(base[:vi] + [nv] + base[vi + 1:])
        return m, ["created", s, False]

    def model_key(model):
        return tuple(sorted((k, v) for k, v in model.items()))

    if sh["mode"] == "stateless":
        # publishing sequences in one continuous process state: no cache reset, no tree restore, long-lived Finders
        L = 6 if sh["tier"] == "thorough" else 4
        n = 0
        starts = [("empty", [], {})]
        # near the last representable version: two scene versions just below the maximum already exist
        hi = [v for v in ("v997", "v998")]
        starts.append(("near-max", [mk(C["task"], v, C["scene_tail"]) for v in hi], {"A:scene": tuple(hi), "A:version": tuple(hi)}))
        for sname, ents, model0 in starts:
          for l in range(1, L + 1):
            for seq in itertools.product(OPS, repeat=l):
                n += 1
                if n % sh["count"] != sh["index"]:
                    continue
                env.clear_tree()
                if ents:
                    tree.materialize(ref, pr, ents)
                env.reset()
                model = dict(model0)
                for i, op in enumerate(seq):
                    got = apply_real(op, reset=False)
                    model, want = model_apply(model, op)
                    rec.transitions += 1
                    if got != want:
                        rec.violation("publish-without-reset/" + bfs._sig(op, got, want), "sequence", {"hist": [list(o) for o in seq[: i + 1]], "start": sname}, got, want)
                        break
                rec.traces += 1
                rec.case("publish-sequence-no-reset-len-%d" % l, True, sample=[o[1] for o in seq])
        rec.extra = {"mode": "stateless", "max_len": L}
        return rec.result()
    env.clear_tree()
    model = {}
    hist = []
    first = OPS[sh["first"]]
    got = apply_real(first)
    model, want = model_apply(model, first)
    hist = [first]
    if got != want:
        rec.violation("publish-result/first", "history", {"hist": hist}, got, want)

    def chk(m, h):
        return []

    ex = bfs.Explorer(rec, lambda s: tree.restore(root, s), lambda: tree.snapshot(root), apply_real, model_apply, model_key, chk, OPS, depth - 1)
    ex.run(hist, model)
    rec.extra = {"mode": "bfs", "first": first, "depth": depth, "closed": ex.closed}
    return rec.result()


def replay_case(kind, case):
    from mc import env, tree, bfs
    C = ctx()
    c0 = C["names"][0]
    pr = C["prs"][c0]
    if kind == "single":
        S1, S2, s, scope, v = case[:5]
        linked = len(case) > 5 and case[5]
        ex = build_universe(C, pr, S1, S2, linked)
        env.reset()
        return [dict(x, signature=x["signature"] + ("/greatest-version-is-a-link" if linked else "")) for x in check_single(C, s, scope, v, ex)[0]]
    # history: re-run and compare every step with the model
    from spil import Sid, WriteToPaths, SpilException
    out = []
    env.clear_tree()
    psid = dict(publishers(C))
    model = {}
    if case.get("start") == "near-max":
        hi = ["v997", "v998"]
        tree.materialize(C["ref"], pr, [mk(C["task"], v, C["scene_tail"]) for v in hi])
        model = {"A:scene": tuple(hi), "A:version": tuple(hi)}
    if kind == "sequence":
        env.reset()
    for i, op in enumerate(case["hist"]):
        if kind != "sequence":
            env.reset()
        x = Sid(psid[op[1]])
        try:
            new = x.get_next("version") if op[1].endswith("/next") else x.get_new("version")
            if not new:
                got = ["none"]
            else:
                existed = new.exists()
                WriteToPaths(c0).create(new)
                got = ["created", new.string, existed]
        except SpilException as e:
            got = ["EXC", "SpilException", str(e)[:60]]
        # the same model as in run_shard
        who, sc = {"task-A": ("A", "version"), "scene-A": ("A", "scene"), "movie-A": ("A", "movie"), "task-B": ("B", "version"),
                   "scene-A/next": ("A", "scene"), "version-A/next": ("A", "version")}[op[1]]
        key = who + ":" + sc
        cur = model.get(key, ())
        last = max(cur, key=num) if cur else None
        n = (num(last) if last else 0) + 1
        nv = fmt(n)
        if not C["accepts"](nv):
            if got != ["none"]:
                out.append(dict(signature="publish-without-reset/" + bfs._sig(op, got, ["none"]) if kind == "sequence" else "operation-result/x", observed=got, expected=["none"]))
            continue
        model[key] = tuple(sorted(set(cur) | {nv}))
        if sc != "version":
            model[who + ":version"] = tuple(sorted(set(model.get(who + ":version", ())) | {nv}))
        base = psid[op[1]].split("/")
        vi = C["vi"]
        s = "/".join(base[:vi] + [nv]) if sc == "version" else "/".join(base[:vi] + [nv] + base[vi + 1:])
        want = ["created", s, False]
        if got != want:
            from mc import bfs
            sig = "publish-result/first" if len(case["hist"]) == 1 else "operation-result/" + bfs._sig(op, got, want)
            if kind == "sequence":
                sig = "publish-without-reset/" + bfs._sig(op, got, want)
            out.append(dict(signature=sig, observed=got, expected=want))
    return out


def coverage(m, tier, seed):
    return {"exhaustive": True, "bounds": {"version_subsets": 2 ** len(VERS), "movie_sets": 3, "publish_depth": 8 if tier == "thorough" else 6}, "explorers": m["extra"][:8]}
