"""C07 - a search expression unfolds to exactly the typed searches its syntax denotes.

E1 against mc.ref.search: every star-subset, every combination of <= k edits (star / last / comma / alias / '**' span /
query filters) of one concrete Sid per type, malformed family; flags do_extrapolate (positional and keyword), do_uniquify.
"""
from __future__ import annotations
from mc.rec import Recorder
from mc import searchgen

ID = "C07"
LEVEL = "exploration"
RULE = ("inputs = for one concrete Sid per configured type: every subset of segments starred (2^n), every combination of "
        "<=k edits from the menu {'*'(i), '>'(i), comma lists (valid pair / valid+invalid / partial glob), every alias and "
        "alias-in-comma-list in the last segment, '**' for every contiguous span, 0-2 query filters from a 14-entry menu}, "
        "plus a malformed family; each under default flags, do_extrapolate=True (positional and keyword) and "
        "do_uniquify=True. distinct = distinct search strings; non-trivial = the reference denotation is non-empty or the "
        "string is one of the SpilException shapes."
        " Added: an alias last in a ',' list, ordered alias pairs, an alias last in a filter list; after every list naming an alias the alias alone is checked from cold caches.")
ASSUMPTIONS = ["do_extrapolate=True is compared on strings (prefix closure of the default result)",
               "where the statement leaves the typing of an ambiguous query overlay open the oracle is required <= got <= allowed"]


def observe(Sid, unfold_search, SpilException, s, *a, **kw):
    try:
        r = unfold_search(s, *a, **kw)
    except SpilException as e:
        return ("spilexc", str(e)[:80])
    except Exception as e:  # noqa
        return ("exc", type(e).__name__ + ": " + str(e)[:80])
    return ("ok", [(x.uri, x.string, bool(x)) for x in r])


def shape(s):
    f = []
    if "?" in s:
        f.append("query")
    if "**" in s:
        f.append("dstar")
    if "," in s:
        f.append("comma")
    if ">" in s:
        f.append("last")
    return "+".join(f) or "plain"


def alias_probes(ref, s):
    """The searches that name one alias of a ',' list of s alone, in the place of the list (last segment, leaf-key filter)."""
    import re
    out = []
    for m in re.finditer(r"[^/?&=]*,[^/?&=]*", s):
        for tok in m.group(0).split(","):
            if tok.strip() in ref.alias:
                q = s[:m.start()] + tok.strip() + s[m.end():]
                if q not in out:
                    out.append(q)
    return out


def check_case(ref, s, nested=False):
    from spil import Sid, SpilException
    from spil.sid.read.tools import unfold_search
    from mc.ref import search as rs
    out = []

    def bad(sig, obs, exp):
        out.append(dict(signature=sig, observed=obs, expected=exp))

    try:
        req, alw = rs.denote(ref, s)
        exp_exc = False
    except rs.SpilExc:
        req, alw, exp_exc = set(), set(), True
    o = observe(Sid, unfold_search, SpilException, s)
    if not nested and "," in s:
        # a list that names an alias must leave the alias what the configuration says: the alias alone, asked next (cold caches)
        from mc import env
        for q in alias_probes(ref, s):
            env.reset()
            for v in check_case(ref, q, nested=True)[0]:
                bad("alias-alone-wrong-after-a-list-naming-it/" + v["signature"], [q, v["observed"]], v["expected"])
                break
    cls = "exc-shape" if exp_exc else ("empty" if not alw else ("one" if len(alw) == 1 else "many"))
    if o[0] == "exc":
        path, _, q = s.partition("?")
        sig = "exception/" + o[1].split(":")[0]
        if "list.remove" in o[1]:
            sig += "/untyped-element-removed-twice"
        elif q and not any(rs.typed_searches(ref, p) for p, _ in _safe_alts(rs, ref, s)):
            sig += "/untyped-search-with-query"
        else:
            sig += "/" + shape(s)
        bad(sig, o[1], "SpilException or a list")
        return out, cls
    if o[0] == "spilexc":
        if not exp_exc:
            bad("unexpected-SpilException/" + shape(s), o[1], sorted(alw)[:6])
        return out, cls
    got = o[1]
    uris = [g[0] for g in got]
    if len(set(uris)) != len(uris):
        bad("duplicates", uris, "no duplicates")
    if any((not g[2]) or "?" in g[1] for g in got):
        bad("untyped-or-unapplied-query-in-result", uris, "typed, no '?'")
    gs = set(uris)
    if exp_exc:
        if gs:
            bad("malformed-search-returns-results", sorted(gs)[:6], "SpilException or []")
        return out, cls
    extra, missing = gs - alw, req - gs
    for grp in list(rs.GROUPS):
        if not (grp & gs) and not missing:
            bad("filter-fits-several-types-but-the-search-was-dropped/" + shape(s), sorted(gs)[:4], sorted(grp)[:4])
            break
    if extra:
        bad(_classify_extra(ref, rs, s, extra), sorted(extra)[:6], sorted(alw)[:6])
    if missing:
        bad("missing/" + shape(s), sorted(missing)[:6], sorted(gs)[:6])
    if extra or missing:
        return out, cls
    # ---- flags
    strings = set(g[1] for g in got)
    for form, a, kw in (("positional", (False, True), {}), ("keyword", (), {"do_extrapolate": True})):
        e = observe(Sid, unfold_search, SpilException, s, *a, **kw)
        if e[0] != "ok":
            bad(f"extrapolate/{e[0]}", e[1], "list")
            continue
        es = [g[1] for g in e[1]]
        eu = [g[0] for g in e[1]]
        if len(set(eu)) != len(eu) or any((not g[2]) or "?" in g[1] for g in e[1]):
            bad(f"extrapolate/dups-or-untyped/{form}", eu[:8], "typed, unique")
        need = rs.prefix_closure(strings)
        if not need <= set(es):
            bad(f"extrapolate/misses-prefixes-of-default-result/{form}", sorted(need - set(es))[:8], sorted(need)[:8])
        cands = rs.extrapolation_candidates(ref, s.partition("?")[0])
        stray = [x for x in set(es) - need if not rs.is_prefix_of_alternative(ref, x, cands)]
        if stray and "?" not in s:
            bad(f"extrapolate/result-is-no-prefix-of-the-search/{form}", sorted(stray)[:8], sorted(need)[:8])
    u = observe(Sid, unfold_search, SpilException, s, True)
    if u[0] != "ok":
        bad(f"uniquify/{u[0]}", u[1], "list")
    else:
        us = [g[1] for g in u[1]]
        if len(set(us)) != len(us) or set(us) != strings or not set(g[0] for g in u[1]) <= gs:
            bad("uniquify/wrong", us[:8], sorted(strings)[:8])
    return out, cls


def _safe_alts(rs, ref, s):
    try:
        return rs.alternatives(ref, s)
    except Exception:  # noqa
        return []


def _classify_extra(ref, rs, s, extra):
    """Name the mechanism of an unexpected result."""
    alts = _safe_alts(rs, ref, s)
    untyped_alt_with_q = False
    for p, q in alts:
        try:
            ts = rs.typed_searches(ref, p)
        except rs.SpilExc:
            ts = []
        if q and not ts and p:
            untyped_alt_with_q = True
    if untyped_alt_with_q:
        return "extra/untypable-alternative-typed-by-its-filter"
    narrow_keys = set()
    for b, nq in ref.narrow.items():
        narrow_keys |= set(ref.qdict(nq))
    _, _, q = s.partition("?")
    if q and (set(ref.qdict(q)) & narrow_keys):
        return "extra/filter-on-narrowing-key-overridden"
    return "extra/" + shape(s)


def gen(ref, tier):
    k = 3 if tier == "thorough" else (1 if tier == "c20" else 2)
    if tier == "thorough":
        yield from searchgen.family(ref, k=2, rep=1)
    yield from searchgen.family(ref, k=k)
    yield from searchgen.malformed(ref)


def plan(tier, seed):
    return {"shards": [{"index": i, "count": 16} for i in range(16)]}


def run_shard(sh):
    from mc.ref.model import Conf
    ref = Conf()
    rec = Recorder(sh["index"], sh["count"], sh["seed"])
    for s in gen(ref, sh["tier"]):
        if not rec.mine(s):
            continue
        viols, cls = check_case(ref, s)
        rec.case(cls, cls != "empty", sample=s)
        for v in viols:
            rec.violation(v["signature"], "search", s, v["observed"], v["expected"])
        if any(v["signature"].startswith("alias-alone-wrong-after") for v in viols):
            break       # the process's configuration is no longer what was loaded: nothing observed after this point counts
    return rec.result()


def replay_case(kind, case):
    from mc.ref.model import Conf
    return check_case(Conf(), case)[0]


def coverage(m, tier, seed):
    return {"bounds": {"k": 3 if tier == "thorough" else 2, "queries": 2, "dstar": 1}, "exhaustive": True}
