"""C03 - parent, get_as and '/' navigate one consistent hierarchy.

E1: the C02 universe + forced-type Sids + untyped Sids; every typed Sid is built through every construction route
(string, uri, fields in template / reversed order, query in template / reversed / rotated order, '?query' string,
base?deeper query, get_with(**kw), path) because the routes store the field dictionary differently.
"""
from __future__ import annotations
from mc.rec import Recorder
from mc import universe
from props.c02 import URLMETA

ID = "C03"
LEVEL = "exploration"
RULE = ("inputs = C02 universe (full product of per-key value sets per type) + same strings under every forced type that "
        "accepts them + untyped strings; each typed Sid constructed through up to 11 routes; for each (Sid, route, key): "
        "get_as / parent / '/' / keytype / basetype / len relations. distinct = distinct (string, forced type); "
        "non-trivial = typed cases with >= 2 fields, and untyped cases.")
ASSUMPTIONS = ["for a Sid whose type was forced onto a string that types differently, 'parent / last == sid' is compared on "
               "string and fields ('/' re-types by construction)"]

ROUTECLASS = {"query-reversed": "query-out-of-order", "query-rotated": "query-out-of-order", "qstring-reversed": "query-out-of-order",
              "base?deeper-reversed": "query-out-of-order", "get_with(query)": "query-out-of-order", "qstring": "query", "base?deeper": "query",
              "fields-reversed": "fields"}

UNTYPED = ["bla", "bla/bla/bla", "hamlet/x", "hamlet/a/char/ophelia/model/v001/w/zz", "?x=y", "bla?project=hamlet", "a//b", " ", ""]


def routes(ref, Sid, t, d, s, natural):
    """yield (route name, thunk)."""
    items = list(d.items())
    keys = [k for k, _ in items]
    uri = t + ":" + s
    yield "uri", lambda: Sid(uri)
    if natural:
        yield "string", lambda: Sid(s)
        yield "fields", lambda: Sid(fields=dict(items))
        yield "fields-reversed", lambda: Sid(fields=dict(reversed(items)))
        if all(v and not (set(v) & URLMETA) for v in d.values()):
            q = "&".join(f"{k}={v}" for k, v in items)
            qr = "&".join(f"{k}={v}" for k, v in reversed(items))
            rot = items[1:] + items[:1]
            qo = "&".join(f"{k}={v}" for k, v in rot)
            yield "query", lambda: Sid(query=q)
            yield "query-reversed", lambda: Sid(query=qr)
            yield "query-rotated", lambda: Sid(query=qo)
            yield "qstring", lambda: Sid("?" + q)
            yield "qstring-reversed", lambda: Sid("?" + qr)
            if len(items) >= 2:
                half = len(items) // 2
                base = "/".join(v for _, v in items[:half])
                rest = "&".join(f"{k}={v}" for k, v in reversed(items[half:]))
                rest_fwd = "&".join(f"{k}={v}" for k, v in items[half:])
                yield "base?deeper-reversed", lambda: Sid(base + "?" + rest)
                yield "base?deeper", lambda: Sid(base + "?" + rest_fwd)
                yield "get_with(query)", lambda: Sid(base).get_with(query=rest)
        if len(items) >= 2:
            half = len(items) // 2
            base = "/".join(v for _, v in items[:half])
            kw = dict(reversed(items[half:]))
            yield "get_with(kw)", lambda: Sid(base).get_with(**kw)
        if not ref.is_search_text(s) and all(d.values()):     # (an empty value has no path round trip: C05's alphabet)
            def via_path():
                p = Sid(s).path()
                return Sid(path=p) if p else None
            yield "path", via_path
        others = [t2 for t2 in ref.all_types(s) if t2 != t]
        if others:
            # the string also fits another type: a Sid *object* of that type went through the factory first (cold factory cache),
            # then the Sid is built from its uri; '/' re-resolves the plain string and must still give the natural type
            def after_other():
                from spil.sid.core.sid_factory import sid_to_sid
                sid_to_sid.cache_clear()
                Sid(Sid(others[0] + ":" + s))
                return Sid(uri)
            yield "uri-after-object-of-other-type", after_other


def check_case(ref, case):
    """case = [string, forced_type|None]"""
    from spil import Sid
    s, forced = case
    out = []

    def bad(sig, obs, exp):
        out.append(dict(signature=sig, observed=obs, expected=exp))

    nt, nd = ref.natural(s) if "?" not in s and ":" not in s else (None, None)
    if forced:
        d = ref.forced(s, forced)
        t = forced if d is not None else None
    else:
        t, d = nt, nd
    if t is None:
        # untyped: navigations return the empty Sid, never fail
        try:
            x = Sid(s)
            if x:
                return out, "skipped-typed-by-query"
            obs = {"parent": x.parent.uri, "get_as": x.get_as("project").uri, "keytype": x.keytype, "basetype": x.basetype,
                   "len": len(x), "div": (x / "a").string, "get_with": x.get_with(project="hamlet").uri}
            exp = {"parent": "", "get_as": "", "keytype": None, "basetype": None, "len": 0, "div": s + "/a", "get_with": ""}
            if s == "":
                obs.pop("get_with"), exp.pop("get_with")      # an overlay on nothing is a Sid built from that overlay (C04), not a navigation
            if obs != exp:
                bad("untyped-navigation", obs, exp)
            # what a navigation on an untyped Sid returned is itself an untyped (the empty) Sid: navigating on goes on not failing
            for name, y in (("parent", x.parent), ("get_as", x.get_as("project")), ("Sid()", Sid())):
                obs2 = {"parent": y.parent.uri, "get_as": y.get_as("project").uri, "keytype": y.keytype, "basetype": y.basetype, "len": len(y),
                        "parent.parent": y.parent.parent.uri, "bool": bool(y)}
                exp2 = {"parent": "", "get_as": "", "keytype": None, "basetype": None, "len": 0, "parent.parent": "", "bool": False}
                if obs2 != exp2:
                    bad("untyped-navigation/on-the-empty-sid", [name, obs2], exp2)
                    break
        except Exception as e:  # noqa
            bad(f"untyped-navigation/exception/{type(e).__name__}", repr(e), "empty Sids")
        return out, "untyped"
    natural = (nt == t)
    items = list(d.items())
    keys = [k for k, _ in items]
    segs = s.split("/")
    for route0, thunk in routes(ref, Sid, t, d, s, natural):
        route = ROUTECLASS.get(route0, route0)
        try:
            y = thunk()
        except Exception as e:  # noqa
            bad(f"{route}/construct/exception/{type(e).__name__}", repr(e), "a Sid")
            continue
        if y is None:
            continue
        if not (y == Sid(t + ":" + s)):
            # construction equality belongs to C02/C04/C05; here only navigation of what was built
            if route0 in ("get_with(kw)", "get_with(query)", "base?deeper", "base?deeper-reversed"):
                continue  # the shorter base may type differently (hamlet/*/*/sh0001 is an asset): not this Sid, nothing to navigate
            bad(f"{route}/construct/not-equal", getattr(y, "uri", repr(y)), t + ":" + s)
            continue
        try:
            if y.keytype != keys[-1]:
                bad(f"{route}/keytype", y.keytype, keys[-1])
            if y.basetype != t.split("__")[0]:
                bad(f"{route}/basetype", y.basetype, t.split("__")[0])
            if len(y) != len(items):
                bad(f"{route}/len", len(y), len(items))
            for i, k in enumerate(keys):
                g = y.get_as(k)
                ok = bool(g) and list(g.fields.items()) == items[: i + 1] and g.string == "/".join(segs[: i + 1])
                if not ok:
                    bad(f"{route}/get_as", [k, g.uri, list(g.fields.items())], ["/".join(segs[: i + 1]), items[: i + 1]])
                    break
            par = y.parent
            if len(items) == 1:
                if not (par == y):
                    bad(f"{route}/root-parent", par.uri, y.uri)
            else:
                pg = y.get_as(keys[-2])
                if not (par == pg) or len(par) != len(items) - 1:
                    bad(f"{route}/parent", [par.uri, len(par)], [pg.uri, len(items) - 1])
                back = par / items[-1][1]
                if natural:
                    okb = (back == y)
                else:
                    okb = back.string == s  # '/' re-types the concatenated string; a forced type cannot survive it
                if not okb:
                    bad(f"{route}/parent-div-last", [back.uri, list(back.fields.items())], y.uri)
            # walking parents reaches the one-field Sid in len-1 steps and stays
            cur, steps = y, 0
            while len(cur) > 1 and steps < 30:
                cur = cur.parent
                steps += 1
            if steps != len(items) - 1 or len(cur) != 1 or not (cur.parent == cur):
                bad(f"{route}/walk", [steps, cur.uri], [len(items) - 1, segs[0]])
        except Exception as e:  # noqa
            bad(f"{route}/navigate/exception/{type(e).__name__}", repr(e), "relations hold")
    return out, ("typed:" if natural else "forced:") + t


def params(tier):
    if tier == "c20":
        return dict(n_closed=1, n_digit=1, n_names=1, search="star-only")
    if tier == "thorough":
        return dict(n_closed=2, n_digit=1, n_names=2)
    return dict(n_closed=1, n_digit=1, n_names=1)


def c20_strings(ref, typ):
    """Reduced universe for the configuration family: the concrete Sid, every single-'*' variant, all '*'."""
    segs = universe.one_per_type(ref)[typ].split("/")
    yield "/".join(segs)
    for i in range(len(segs)):
        yield "/".join(segs[:i] + ["*"] + segs[i + 1:])
    yield "/".join(["*"] * len(segs))
    yield "/".join(segs[:1] + ["*"] * (len(segs) - 1))


def gen(ref, tier):
    p = params(tier)
    for typ in ref.types:
        for s in (c20_strings(ref, typ) if tier == "c20" else universe.typed_strings(ref, typ, **p)):
            yield [s, None]
            # forced types that accept the same string but are not the natural one
            nat = ref.natural(s)[0]
            for t2 in ref.all_types(s):
                if t2 != nat:
                    yield [s, t2]
    # empty values are legal in free-text positions ('hamlet/a/char/' is an asset named ''): '/' must still give back the Sid
    conc = universe.one_per_type(ref)
    for typ, s in conc.items():
        segs = s.split("/")
        for i, (k, pat) in enumerate(ref.templates[typ]):
            if pat is None:
                e = "/".join(segs[:i] + [""] + segs[i + 1:])
                if ref.natural(e)[0]:
                    yield [e, None]
    # names with blanks at either end or inside, and other special names, in every free-text position
    from props.c02 import SPECIAL_NAMES
    for typ, s in conc.items():
        segs = s.split("/")
        for i, (k, pat) in enumerate(ref.templates[typ]):
            if pat is None:
                for nm in [n for n in SPECIAL_NAMES if not n.startswith("~")] + [" "]:      # (a leading '~': known finding of C02)
                    e = "/".join(segs[:i] + [nm] + segs[i + 1:])
                    if ref.natural(e)[0]:
                        yield [e, None]
    for s in UNTYPED:
        yield [s, None]
    for s in universe.one_per_type(ref).values():
        yield [s + "/zz/zz/zz/zz", None]
        yield ["zz/" + s, None]


def plan(tier, seed):
    n = 16
    return {"shards": [{"index": i, "count": n} for i in range(n)]}


def run_shard(sh):
    from mc.ref.model import Conf
    ref = Conf()
    rec = Recorder(sh["index"], sh["count"], sh["seed"])
    for case in gen(ref, sh["tier"]):
        if not rec.mine(case[0] + "|" + str(case[1])):
            continue
        viols, cls = check_case(ref, case)
        if cls.startswith("skipped"):
            rec.count(cls)
            continue
        rec.case(cls, cls == "untyped" or case[0].count("/") >= 1, sample=case)
        for v in viols:
            rec.violation(v["signature"], "sid", case, v["observed"], v["expected"])
    return rec.result()


def replay_case(kind, case):
    from mc.ref.model import Conf
    return check_case(Conf(), case)[0]


def coverage(m, tier, seed):
    return {"bounds": params(tier), "exhaustive": True}
