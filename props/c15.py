"""C15 - created entities exist, and attribute data reads back what was written.

E2: breadth-first exploration of create / set / update histories over a small alphabet of Sids (two files sharing a
sidecar, another version, a movie file, a version folder, a task folder of another asset, a Sid without path, an
untyped Sid); state = canonical LOCAL tree; in every state all reads, existence answers and 25 searches are compared
with the reference store; plus stateless sequences without any reset, and observation from a new process.
"""
from __future__ import annotations
import os, sys, json, itertools, subprocess
from mc.rec import Recorder

ID = "C15"
LEVEL = "model_checking"
ENGINE = "E2-explicit-state-histories"
TECHNIQUE = "explicit-state BFS over operation histories of the real write/read API (state = canonical file tree), reference store as oracle"
RULE = ("histories = every sequence of operations {create(e), create(e,{a:1}), set(e,a,1), set(e,a,2), set(e,b=1), "
        "update(e,{a:2,b:2})} over 8 Sids, explored breadth-first from the empty tree to the depth bound with "
        "de-duplication on the canonical tree (sharded by first successful operation); every transition is a real API "
        "call on a restored tree with cold caches; in every distinct state: return/raise of the operation, unchanged tree "
        "after failure, exists (FindInPaths, FindInAll, sid.exists), get_data from a new Getter, get_attr, 20+ searches on "
        "two Finders, tree inventory. Stateless part: every sequence of length <= L executed with no reset at all. "
        "New-process part: states at depth <= 2 re-observed by a new interpreter. distinct = distinct trees; non-trivial = all."
        " Added: the no-reset sequences are read before the first write, between writes and at the end.")
ASSUMPTIONS = ["cold caches + tree determine the future (checked: same tree reached twice must carry the same model state; C13 checks warm caches)"]


def ctx():
    from mc.ref.model import Conf
    from mc.ref.paths import PathsRef
    from mc import universe
    ref = Conf()
    conc = universe.one_per_type(ref, rep=1)
    leaf_types = [t for t in ref.types if ref.is_leaf_type(t)]
    # the basetype the entities are taken from: the first one, or the one the driver asks for (C18 runs its single-call
    # family on a second basetype, whose leaf strings also fit a type without path template in the demo configuration)
    bases = []
    for t in leaf_types:
        if ref.basetype(t) not in bases:
            bases.append(ref.basetype(t))
    base = bases[int(os.environ.get("VERIF_C15_BASE", "0") or 0) % len(bases)]
    leaf_types = [t for t in leaf_types if ref.basetype(t) == base] + [t for t in leaf_types if ref.basetype(t) != base]
    lt = leaf_types[0]
    F1 = conc[lt].split("/")
    keys = ref.keys(lt)
    exts = [x for x in ref.accepted(lt, len(keys) - 1, ref.literals()) if x not in ref.alias]
    F2 = F1[:-1] + [[x for x in exts if x != F1[-1]][0]]
    vi = keys.index("version") if "version" in keys else len(keys) - 3
    vers = [v for v in ref.accepted(lt, vi, ref.digit_instances()) if v != F1[vi]]
    F3 = list(F1)
    F3[vi] = vers[0]
    # a movie-like leaf type of the same basetype: same keys, other extension set, other folder
    mt = [t for t in leaf_types if t != lt and ref.keys(t) == keys][0]
    mext = [x for x in ref.accepted(mt, len(keys) - 1, ref.literals()) if x not in ref.alias and x not in exts][0]
    M1 = F1[:-1] + [mext]
    V1 = F1[: vi + 1]
    # task folder of another asset
    ti = vi - 1
    names = [i for i, (k, p) in enumerate(ref.templates[lt]) if p is None]
    D1 = list(F1[: ti + 1])
    if names and names[0] <= ti:
        D1[names[0]] = "other"
    else:       # a chain without free-text key: another accepted value at the first level that has one
        for i in range(2, ti + 1):
            alt = [x for x in ref.accepted(lt, i, ref.literals() + ref.digit_instances()) if x != F1[i] and x not in ("*", ">")]
            if alt:
                D1[i] = alt[0]
                break
    NP = F1[:-1]
    E = {"F1": "/".join(F1), "F2": "/".join(F2), "F3": "/".join(F3), "M1": "/".join(M1), "V1": "/".join(V1), "D1": "/".join(D1),
         "NP": "/".join(NP), "U": "bla/bla"}
    # a cache-like leaf type of the same basetype (third extension set; same folder as the movie file in the demo configuration)
    kts = [t for t in leaf_types if t not in (lt, mt) and ref.keys(t) == keys]
    if kts:
        kext = [x for x in ref.accepted(kts[0], len(keys) - 1, ref.literals()) if x not in ref.alias and x not in exts and x != mext]
        if kext:
            E["K1"] = "/".join(F1[:-1] + [kext[0]])
    # the same file in another value of a closed key after the version (the publish state of the work file): C17 creates it
    # as a symbolic link to F1's file
    for i in range(vi + 1, len(keys) - 1):
        alt = [x for x in ref.accepted(lt, i, ref.literals()) if x != F1[i] and x not in ("*", ">")]
        if alt and ref.templates[lt][i][1] is not None:
            E["L1"] = "/".join(F1[:i] + [alt[0]] + F1[i + 1:])
            break
    # two files of one folder whose names hold a dot inside (a dotted free-text value) and differ after it
    if "L1" in E and names:
        x1 = list(F1)
        x1[names[0]] = "x.y"
        li = [i for i in range(len(F1)) if E["L1"].split("/")[i] != F1[i]][0]
        x2 = list(x1)
        x2[li] = E["L1"].split("/")[li]
        if ref.natural("/".join(x1))[0] == lt and ref.natural("/".join(x2))[0] == lt:
            E["X1"], E["X2"] = "/".join(x1), "/".join(x2)
    prs = {n: PathsRef(n) for n in PathsRef().configs}
    return dict(ref=ref, prs=prs, names=list(prs), E=E)


# attribute names read one by one through Sid.get_attr (the routed read): written ones, an absent one, and names that look like
# the computed-attribute syntax without being the computed attribute ('next.version')
ATTR_KEYS = ["a", "b", "zz", "c", "next", "next.review"]


def ops(values=(1, 2)):
    out = []
    for e in ("F1", "F2", "F3", "M1", "V1", "D1", "NP", "U"):
        out.append(["create", e, None])
        out.append(["create", e, {"a": 1}])
        for v in values:
            out.append(["set", e, {"a": v}])
        out.append(["setkw", e, {"b": 1}])
        out.append(["update", e, {"a": 2, "b": 2}])
    # an attribute that is itself called 'sid' (e.g. a record read from another Sid and written back)
    out.append(["create", "K1", None])
    out.append(["create", "K1", {"a": 1}])
    out.append(["set", "F1", {"sid": "hamlet/other"}])
    out.append(["update", "V1", {"sid": "x", "a": 5}])
    out.append(["update", "F1", {"next": 1, "next.review": "r"}])
    # dotted names: two files of one folder that differ after the dot
    for e in ("X1", "X2"):
        out.append(["create", e, None])
        out.append(["set", e, {"a": 1 if e == "X1" else 2}])
    # values that are false in a boolean test are values too (frame 0, an empty comment, a flag switched off)
    out.append(["set", "F1", {"a": 0}])
    out.append(["set", "F1", {"b": ""}])
    out.append(["setmix", "F1", {"a": False, "b": 0}])
    # several attributes in one set() call
    out.append(["setkw", "F1", {"a": 3, "b": 3}])
    out.append(["setmix", "F1", {"a": 4, "c": 4}])
    # text outside ASCII, and a string as os.fsdecode gives it for a file name that is not valid UTF-8 (lone surrogate)
    out.append(["set", "F1", {"c": "\u00e9t\u00e9 \u00fc\u4e16"}])
    out.append(["update", "F1", {"c": "na\u00efve", "n": "f\udce9.ma"}])
    return out


# ------------------------------------------------------------------------------------------------ reference model
class Model:
    def __init__(self, C, created=(), data=None):
        self.C = C
        self.created = tuple(created)
        self.data = dict(data or {})     # sidecar key -> dict

    def key(self):
        # what exists (closure under path ancestors), not how it came to exist
        return (tuple(sorted(self.store().paths)), json.dumps(self.data, sort_keys=True))

    def store(self):
        from mc.ref.store import Store, sources_for_demo
        from mc.ref.confview import load_private
        C = self.C
        return Store(C["ref"], C["prs"][C["names"][0]], [C["E"][e] if e in C["E"] else e for e in self.created], sources_for_demo(load_private("spil_sid_conf")))

    def path(self, e):
        from mc import tree
        C = self.C
        ep = tree.entity_path(C["ref"], C["prs"][C["names"][0]], C["E"][e])
        return ep[0] if ep else None

    def sidecar(self, e):
        # the data of an entity is keyed as the statement scopes it: by its path without the final extension (two entities
        # share data exactly when their paths differ by no more than the extension) - not by asking the configuration
        p = self.path(e)
        return os.path.splitext(p)[0] if p else None

    def exists(self, e):
        s = self.C["E"][e]
        return s in self.store().paths

    def apply(self, op):
        kind, e, arg = op
        p = self.path(e)
        if p is None:
            return self, ["EXC", "SpilException"]
        if kind == "create":
            if self.exists(e):
                return self, ["EXC", "SpilException"]
            m = Model(self.C, self.created + (e,), self.data)
            if arg:
                sc = self.sidecar(e)
                d = dict(m.data.get(sc, {}))
                d.update(arg)
                m.data[sc] = d
            return m, True
        if not self.exists(e):
            return self, ["EXC", "SpilException"]
        m = Model(self.C, self.created, self.data)
        sc = self.sidecar(e)
        d = dict(m.data.get(sc, {}))
        d.update(arg)
        m.data[sc] = d
        return m, True

    def read(self, e):
        p = self.path(e)
        if p is None:
            return {}
        d = dict(self.data.get(self.sidecar(e), {}))
        d["sid"] = self.C["E"][e]
        return d


# ------------------------------------------------------------------------------------------------ real calls
def apply_real(C, op, reset=True):
    from spil import WriteToPaths, SpilException
    from mc import env
    if reset:
        env.reset()
    kind, e, arg = op
    w = WriteToPaths(C["names"][0])
    s = C["E"][e]
    try:
        if kind == "create":
            r = w.create(s, data=arg) if arg else w.create(s)
        elif kind == "set":
            (k, v), = arg.items()
            r = w.set(s, k, v)
        elif kind == "setkw":
            r = w.set(s, **arg)
        elif kind == "setmix":          # first pair as attribute / value, the others as keyword arguments: one call, one write
            (k, v), *rest = arg.items()
            r = w.set(s, k, v, **dict(rest))
        else:
            r = w.update(s, arg)
    except SpilException:
        return ["EXC", "SpilException"]
    except Exception as ex:  # noqa
        return ["EXC", type(ex).__name__]
    return r


def search_menu(C):
    E = C["E"]
    f1 = E["F1"].split("/")
    out = [E["F1"], E["F2"], E["M1"], E["V1"], E["D1"], E["NP"]]
    n = len(f1)
    out += ["/".join(f1[:i] + ["*"]) for i in range(1, n)]
    out += ["/".join(f1[:i] + ["*"] * (n - i)) for i in range(2, n)]
    out += ["/".join(f1[:3] + ["**"]), "/".join(f1[:1] + ["**"]), "/".join(f1[:-3] + [">", "*", "*"]), "/".join(f1[:-1] + ["*"]) + "?a=1",
            "/".join(f1[:2] + ["*"] + f1[3:]), "/".join(f1[:3] + ["*"] + f1[4:-1] + ["*"])]
    res = []
    for s in out:
        if s not in res:
            res.append(s)
    return res


def observe(C):
    """Everything a user can read, as plain JSON."""
    from spil import Sid, FindInPaths, FindInAll, GetFromPaths, GetFromAll
    from mc import env, tree
    env.reset()
    c0 = C["names"][0]
    obs = {"exists": {}, "data": {}, "attr": {}, "find": {}}
    for e, s in C["E"].items():
        x = Sid(s)
        try:
            obs["exists"][e] = [bool(FindInPaths(c0).exists(s)), bool(x.exists()) if x else False]
        except Exception as ex:  # noqa
            obs["exists"][e] = "EXC " + type(ex).__name__
        try:
            obs["data"][e] = [GetFromPaths(c0).get_data(s), GetFromPaths(c0).get_data(s, sid_encode=lambda q: q.uri), GetFromAll().get_data(s) if x else {}]
        except Exception as ex:  # noqa
            obs["data"][e] = "EXC " + type(ex).__name__
        try:
            obs["attr"][e] = [x.get_attr(k) for k in ATTR_KEYS] if x else None
        except Exception as ex:  # noqa
            obs["attr"][e] = "EXC " + type(ex).__name__
    for s in search_menu(C):
        try:
            obs["find"][s] = [sorted(FindInPaths(c0).find(s, as_sid=False)), sorted(FindInAll().find(s, as_sid=False)),
                              # reading through a search: one record per found entity that has a Getter, whatever is asked for
                              len(list(GetFromAll().get(s, attributes=["a"]))), len(list(GetFromAll().get(s, sid_encode=lambda q: None))),
                              sorted(str(r.get("sid")) for r in GetFromAll().get(s))]
        except Exception as ex:  # noqa
            obs["find"][s] = "EXC " + type(ex).__name__ + " " + str(ex)[:60]
    root = C["prs"][c0].root()
    obs["tree"] = [[r, k] for r, k, _ in tree.snapshot(root)]
    return json.loads(json.dumps(obs))


def expected(C, model):
    from spil.sid.read.tools import unfold_search
    from spil import Sid
    st = model.store()
    exp = {"exists": {}, "data": {}, "attr": {}, "find": {}}
    for e, s in C["E"].items():
        typed = bool(C["ref"].natural(s)[0])
        exp["exists"][e] = [s in st.paths, st.exists_all(s) if typed else False]
        d = model.read(e)
        uri = (C["ref"].natural(s)[0] + ":" + s) if typed else s
        d_uri = dict(d)
        if "sid" in d_uri:
            d_uri["sid"] = uri
        routed = typed and C["ref"].natural(s)[0] not in st.sources   # types whose getter is None read nothing through GetFromAll
        exp["data"][e] = [d, d_uri, (d if routed else {})]
        exp["attr"][e] = ([d.get(k) for k in ATTR_KEYS] if routed else [None] * len(ATTR_KEYS)) if typed else None
    for s in search_menu(C):
        from mc.ref import search as rs
        typed = rs.denoted_typed(C["ref"], s, [(u.type, u.string) for u in unfold_search(s)])
        sid = Sid(s)
        typed_direct = typed
        if sid and not sid.is_search() and not C["ref"].is_search_text(s) and "?" not in s and s.split("/")[-1] not in C["ref"].alias:
            typed_direct = [(sid.type, sid.string)]
        found_all = st.do_find("all", typed)[0]
        n_rec = len([x for x in found_all if C["ref"].natural(x)[0] not in st.sources])
        exp["find"][s] = [sorted(st.do_find("paths", typed_direct)[0]), sorted(found_all), n_rec, n_rec,
                          sorted(x for x in found_all if C["ref"].natural(x)[0] not in st.sources)]
    # tree inventory: entity paths, their ancestor folders, sidecars that hold data
    c0 = C["names"][0]
    root = C["prs"][c0].root()
    inv = set()
    from mc import tree
    for e in model.created:
        p, is_file = tree.entity_path(C["ref"], C["prs"][c0], C["E"][e])
        rel = os.path.relpath(p, root)
        parts = rel.split("/")
        for i in range(1, len(parts)):
            inv.add(("/".join(parts[:i]), "d"))
        inv.add((rel, "f" if is_file else "d"))
    # where the data file of a key lies is the configuration's business (its get_data_json_path for an entity of that key)
    where = {}
    for e in C["E"]:
        if model.sidecar(e) and model.sidecar(e) not in where:
            where[model.sidecar(e)] = C["prs"][c0].sidecar(model.path(e))
    for sc, d in model.data.items():
        inv.add((os.path.relpath(where[sc], root), "f"))
    exp["tree"] = sorted([list(x) for x in inv])
    return json.loads(json.dumps(exp))


def diff(obs, exp):
    out = []
    for sect in ("exists", "data", "attr", "find"):
        for k in exp[sect]:
            if obs[sect].get(k) != exp[sect][k]:
                o = obs[sect].get(k)
                sig = f"{sect}-differs"
                if isinstance(o, str) and o.startswith("EXC"):
                    sig = f"{sect}-raises/{o.split()[1]}"
                out.append(dict(signature=sig, observed=[k, o], expected=exp[sect][k]))
                break
    if sorted(obs["tree"]) != exp["tree"]:
        extra = [x for x in obs["tree"] if x not in exp["tree"]]
        missing = [x for x in exp["tree"] if x not in obs["tree"]]
        out.append(dict(signature="tree-inventory-differs", observed={"extra": extra[:5], "missing": missing[:5]}, expected="only entity paths, ancestors, sidecars"))
    return out


def check_state(C, model, hist, newproc=False):
    obs = observe(C)
    exp = expected(C, model)
    out = diff(obs, exp)
    if newproc:
        p = subprocess.run([sys.executable, "-m", "props.c15", "observe"], capture_output=True, text=True, env=os.environ,
                           cwd=os.path.dirname(os.path.dirname(os.path.abspath(__file__))))
        line = [l for l in p.stdout.splitlines() if l.startswith("OBS ")]
        if p.returncode != 0 or not line:
            out.append(dict(signature="new-process-observer-failed", observed=p.stderr[-300:], expected="observation"))
        else:
            obs2 = json.loads(line[-1][4:])
            for v in diff(obs2, exp):
                v["signature"] = "new-process/" + v["signature"]
                out.append(v)
        # ... and by a new process on a machine set up differently: plain C locale (ASCII), no UTF-8 mode
        env2 = dict(os.environ, LC_ALL="C", LANG="C", PYTHONUTF8="0", PYTHONCOERCECLOCALE="0")
        p = subprocess.run([sys.executable, "-m", "props.c15", "observe"], capture_output=True, text=True, env=env2,
                           cwd=os.path.dirname(os.path.dirname(os.path.abspath(__file__))))
        line = [l for l in p.stdout.splitlines() if l.startswith("OBS ")]
        if p.returncode != 0 or not line:
            out.append(dict(signature="new-process-observer-failed/ascii-locale", observed=p.stderr[-300:], expected="observation"))
        else:
            obs2 = json.loads(line[-1][4:])
            for v in diff(obs2, exp):
                v["signature"] = "new-process/ascii-locale/" + v["signature"]
                out.append(v)
    return out


def plan(tier, seed):
    firsts = [op for op in ops() if op[0] == "create" and op[1] not in ("NP", "U")]
    shards = [{"mode": "bfs", "first": op} for op in firsts]
    shards.append({"mode": "bfs", "first": None})
    n_seq = 10 if tier == "thorough" else 6
    shards += [{"mode": "stateless", "index": i, "count": n_seq} for i in range(n_seq)]
    return {"shards": shards}


def run_shard(sh):
    from mc import env, tree, bfs
    C = ctx()
    c0 = C["names"][0]
    root = C["prs"][c0].root()
    rec = Recorder(0, 1, sh["seed"])
    thorough = sh["tier"] == "thorough"
    OPS = [op for op in ops() if op[1] in C["E"]]
    if sh["first"] and sh["first"][1] not in C["E"] if sh.get("first") else False:
        return rec.result()
    if sh["mode"] == "bfs":
        depth = 5 if thorough else 3
        env.clear_tree()
        model = Model(C)
        hist = []
        if sh["first"]:
            got = apply_real(C, sh["first"])
            model, want = model.apply(sh["first"])
            hist = [sh["first"]]
            if got != want:
                rec.violation("operation-result/first", "history", {"hist": hist}, got, want)
            depth -= 1
        else:
            depth = 1   # from the empty tree: every single operation (the successful creates continue in their own shards)
        state_no = [0]

        def chk(m, h):
            state_no[0] += 1
            return check_state(C, m, h, newproc=(len(h) <= 2))

        ex = bfs.Explorer(rec, lambda s: tree.restore(root, s), lambda: tree.snapshot(root), lambda op: apply_real(C, op),
                          lambda m, op: m.apply(op), lambda m: m.key(), chk, OPS, depth,
                          max_states=None if thorough else 1500)
        ex.run(hist, model)
        rec.extra = {"mode": "bfs", "first": sh["first"], "depth_reached": ex.depth_reached + (1 if sh["first"] else 0), "closed": ex.closed}
    else:
        # stateless: sequences executed in one continuous process state, no cache reset, no tree restore inside
        L = 3 if thorough else 2
        seqs = itertools.chain.from_iterable(itertools.product(OPS, repeat=l) for l in range(1, L + 1))
        small = [op for op in OPS if op[1] in ("F1", "F2", "V1") and not (op[0] == "set" and op[2] == {"a": 1})][:14]
        if not thorough:
            seqs = itertools.chain(seqs, itertools.product(small, repeat=3))
        n = 0
        for si, seq in enumerate(seqs):
            if si % sh["count"] != sh["index"]:
                continue
            env.clear_tree()
            env.reset()
            model = Model(C)
            # what was read before the writes (on the empty tree, and after every step) must not stick to the process
            for v in diff(observe_noreset(C), expected(C, model)):
                rec.violation("no-reset/before-any-write/" + v["signature"], "sequence", {"hist": []}, v["observed"], v["expected"])
            for i, op in enumerate(seq):
                got = apply_real(C, op, reset=False)
                model, want = model.apply(op)
                rec.transitions += 1
                if got != want:
                    rec.violation("operation-result/no-reset/" + bfs._sig(op, got, want), "sequence", {"hist": list(seq[: i + 1])}, got, want)
                if i < len(seq) - 1:
                    for v in diff(observe_noreset(C), expected(C, model)):
                        rec.violation("no-reset/read-between-writes/" + v["signature"], "sequence", {"hist": list(seq[: i + 1])}, v["observed"], v["expected"])
            # observation without reset: reads must reflect what this very process wrote
            obs = observe_noreset(C)
            exp = expected(C, model)
            for v in diff(obs, exp):
                rec.violation("no-reset/" + v["signature"], "sequence", {"hist": list(seq)}, v["observed"], v["expected"])
            rec.traces += 1
            rec.case("sequence-len-%d" % len(seq), True, sample={"hist": list(seq)})
        rec.extra = {"mode": "stateless", "max_len": L}
    return rec.result()


def observe_noreset(C):
    from mc import env
    real = env.reset
    env.reset = lambda *a, **k: None
    try:
        return observe(C)
    finally:
        env.reset = real


def replay_case(kind, case):
    from mc import env, tree
    C = ctx()
    env.clear_tree()
    model = Model(C)
    out = []
    hist = case["hist"]
    from mc import bfs
    if kind == "sequence":
        env.reset()
        for v in diff(observe_noreset(C), expected(C, model)):
            out.append(dict(v, signature="no-reset/before-any-write/" + v["signature"]))
        for i, op in enumerate(hist):
            got = apply_real(C, op, reset=False)
            model, want = model.apply(op)
            if got != want:
                out.append(dict(signature="operation-result/no-reset/" + bfs._sig(op, got, want), observed=got, expected=want))
            if i < len(hist) - 1:
                for v in diff(observe_noreset(C), expected(C, model)):
                    out.append(dict(v, signature="no-reset/read-between-writes/" + v["signature"]))
        for v in diff(observe_noreset(C), expected(C, model)):
            out.append(dict(v, signature="no-reset/read-between-writes/" + v["signature"]))
            v["signature"] = "no-reset/" + v["signature"]
            out.append(v)
        return out
    root = C["prs"][C["names"][0]].root()
    if "other" in case:
        keys = []
        for h in (case["hist"], case["other"]):
            env.clear_tree()
            m = Model(C)
            for op in h:
                apply_real(C, op)
                m, _ = m.apply(op)
            keys.append((bfs.tree_key(tree.snapshot(root)), m.key()))
        if keys[0][0] == keys[1][0] and keys[0][1] != keys[1][1]:
            return [dict(signature="same-tree-different-model-state", observed=[case["hist"], case["other"]], expected="equal model states")]
        return []
    for i, op in enumerate(hist):
        before = bfs.tree_key(tree.snapshot(root))
        got = apply_real(C, op)
        model, want = model.apply(op)
        if got != want:
            out.append(dict(signature=("operation-result/first" if i == 0 and len(hist) == 1 else "operation-result/" + bfs._sig(op, got, want)), observed=got, expected=want))
            out.append(dict(signature="operation-result/" + bfs._sig(op, got, want), observed=got, expected=want))
        if isinstance(want, list) and bfs.tree_key(tree.snapshot(root)) != before:
            out.append(dict(signature="failed-operation-changed-the-tree/" + op[0], observed="changed", expected="unchanged"))
    out += check_state(C, model, hist, newproc=True)
    return out


def coverage(m, tier, seed):
    return {"exhaustive": True, "bounds": {"bfs_depth": 5 if tier == "thorough" else 3, "stateless_len": 3 if tier == "thorough" else 2},
            "explorers": m["extra"][:20]}


if __name__ == "__main__":
    if sys.argv[1] == "observe":
        from mc import env
        env.boot()
        print("OBS " + json.dumps(observe(ctx())))
