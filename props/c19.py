"""C19 - template extrapolation gives every level of every hierarchy one well-named type.

E4 -> E1 on generated tables: a grammar of template tables (1-2 basetypes exhaustively, 3-4 basetypes with short chains),
explicit types at every subset of levels and in several dictionary orders, every subset of to_extrapolate, key names that
collide with the basetype name; pattern_replacing with every selector class.
Oracle: mc.ref.model.ref_extrapolate / ref_inject (written from the statement) + invariants checked independently.
"""
from __future__ import annotations
import itertools, json, os
from mc.rec import Recorder

ID = "C19"
LEVEL = "exploration"
ENGINE = "E4-configuration-enumeration"
RULE = ("configurations = template tables from a grammar: basetypes from {shot, asset, a, prop} with key chains that contain "
        "the basetype's own name or a substring of it (shot/.../{shot}, asset/{assettype}/{asset}, a/{a}), chain length 2..L, "
        "explicit types at every subset of levels (plus optional leaf variants sharing all but the last pattern), listed in "
        "descending / ascending / every permutation (<=3 entries) order, to_extrapolate = every subset of the explicit "
        "base__key types; 2 basetypes: all pairs of single-basetype tables with chains <=4 in 3 interleavings; 3-4 "
        "basetypes: chains <=3. pattern_replacing: 7 selector classes x occurring / non-occurring find strings. Loader: "
        "configurations loaded by spil.conf in fresh interpreters (extrapolate, then inject), each also as a path configuration "
        "with no selectors / a selector matching no type / its own selectors. "
        "distinct = distinct (table, to_extrapolate) ; non-trivial = at least one type is extrapolated.")
ASSUMPTIONS = ["to_extrapolate lists explicitly configured types (named basetype__key, or a bare basetype name)"]
SEP = "__"

BASES = {
    "shot": ["project", "type:s", "sequence", "shot", "task", "version", "state", "node", "ext:caches"],
    "asset": ["project", "type:a", "assettype", "asset", "task", "version", "state", "ext:scenes", "frame"],
    "a": ["project", "a", "b", "ab", "c", "d"],
    "prop": ["project", "type:p", "prop", "op", "r"],
}


def tpl(chain, n):
    return "/".join("{" + k + "}" for k in chain[:n])


def key_of(part):
    return part.split(":")[0]


def single_tables(base, L, leaf_variant=False):
    """yield (ordered list of (name, template), list of base__key names that may be extrapolated)."""
    chain = BASES[base][:L]
    levels = list(range(1, L + 1))
    for r in range(0, L + 1):
        for lv in itertools.combinations(levels, r):
            entries = []
            for l in lv:
                name = base if (l == 2 and L > 2) else base + SEP + key_of(chain[l - 1])
                if l == 1:
                    name = "project" if key_of(chain[0]) == "project" else base + SEP + key_of(chain[0])
                entries.append((name, tpl(chain, l)))
            if leaf_variant and L in lv:
                entries.append((base + SEP + "movie_file", tpl(chain[:L - 1] + [key_of(chain[L - 1]) + ":movies"], L)))
            names = [n for n, _ in entries]
            if len(set(names)) != len(names):
                continue
            orders = []
            desc = sorted(entries, key=lambda e: -len(e[1]))
            asc = sorted(entries, key=lambda e: len(e[1]))
            if len(entries) <= 3:
                orders = [list(p) for p in itertools.permutations(entries)]
            else:
                orders = [desc, asc, desc[1:] + desc[:1]]
            seen = []
            for o in orders:
                if o not in seen:
                    seen.append(o)
                    yield o, [n for n, _ in o]


def gen_tables(tier):
    Lmax = 9 if tier == "thorough" else 8
    singles = {}
    for base in BASES:
        for L in range(2, min(Lmax, len(BASES[base])) + 1):
            for lvv in (False, True):
                for entries, extr in single_tables(base, L, lvv):
                    yield entries, extr
                    if L <= (5 if tier == "thorough" else 4) and not lvv:
                        singles.setdefault(base, []).append((entries, extr))
    # one basetype, two explicit types whose chains diverge (a level inserted in one of them) and share key names below
    # the divergence: both walks generate the same names for different templates ("skipped if that name is taken")
    for base in BASES:
        full = BASES[base]
        for L in range(5, min(Lmax, len(full)) + 1):
            A = full[:L]
            for j in range(2, L - 2):
                B = full[:j] + ["step"] + full[j:L - 1]
                ents = [(base + SEP + key_of(A[-1]), tpl(A, L)), (base + SEP + key_of(B[-1]), tpl(B, len(B))), (base, tpl(A, 2)), ("project", tpl(A, 1))]
                if len({n for n, _ in ents}) != len(ents):
                    continue
                for order in (ents, [ents[1], ents[0]] + ents[2:], ents[2:] + ents[:2]):
                    yield order, [order_n for order_n, _ in order if SEP in order_n]
    # two basetypes
    bl = list(singles)
    for b1, b2 in itertools.permutations(bl, 2):
        if bl.index(b1) > bl.index(b2) and tier != "thorough":
            continue
        for (e1, x1), (e2, x2) in itertools.product(singles[b1], singles[b2]):
            n1 = {n for n, _ in e1}
            t1 = {t for _, t in e1}
            e2f = [(n, t) for n, t in e2 if n not in n1 and t not in t1]
            for inter in (e1 + e2f, e2f + e1, [x for p in itertools.zip_longest(e1, e2f) for x in p if x]):
                yield inter, [n for n, _ in inter]
    # three / four basetypes, short chains
    short = {b: [(e, x) for e, x in singles[b] if max((len(t.split("/")) for _, t in e), default=0) <= 3 and len(e) <= 2] for b in bl}
    for combo in itertools.product(*[short[b][:12] for b in bl[:3]]):
        entries = []
        for e, _ in combo:
            for n, t in e:
                if n not in {a for a, _ in entries} and t not in {b for _, b in entries}:
                    entries.append((n, t))
        yield entries, [n for n, _ in entries]
    for combo in itertools.product(*[short[b][:5] for b in bl[:4]]):
        entries = []
        for e, _ in combo:
            for n, t in e:
                if n not in {a for a, _ in entries} and t not in {b for _, b in entries}:
                    entries.append((n, t))
        yield entries, [n for n, _ in entries]


def extr_subsets(extr, cap=6):
    ex = extr[:cap]
    for r in range(0, len(ex) + 1):
        for c in itertools.combinations(ex, r):
            yield list(c)


def invariants(table, to_x, result):
    """Independent of the reference: the statement's invariants on spil's own output."""
    errs = []
    names = list(result)
    explicit = [n for n in names if n in table]
    if explicit != list(table) or any(result[n] != table[n] for n in table):
        errs.append("explicit-entries-changed-or-reordered")
    tvals = list(result.values())
    if len(set(tvals)) != len(tvals):
        errs.append("duplicate-templates")
    owned = set(table.values())
    i = 0
    items = list(result.items())
    while i < len(items):
        n, t = items[i]
        i += 1
        if n in table:
            src, last_len = (n, len(t.split("/")))
            continue
        # generated entry: must follow an extrapolated source, be a proper prefix of it, shorter than the previous one
        if src not in to_x:
            errs.append("generated-entry-after-non-extrapolated-type")
        if not (table[src] + "/").startswith(t + "/") or t == table[src]:
            errs.append("generated-template-not-a-prefix-of-its-source")
        ln = len(t.split("/"))
        if ln >= last_len:
            errs.append("generated-not-longest-to-shortest")
        last_len = ln
        base = src.split(SEP)[0]
        if n != base + SEP + key_of(t.split("/")[-1].strip("{}")):
            errs.append("generated-name-not-basetype+sep+lastkey")
    return errs


def check_case(case):
    from spil.conf.util import extrapolate_templates, pattern_replacing
    from mc.ref.model import ref_extrapolate, ref_inject
    entries, to_x = case["table"], case["extrapolate"]
    table = {n: t for n, t in entries}
    out = []
    try:
        got = dict(extrapolate_templates(dict(table), list(to_x)))
    except Exception as e:  # noqa
        return [dict(signature=f"extrapolate/exception/{type(e).__name__}", observed=repr(e), expected="a table")], "exception"
    exp = ref_extrapolate(dict(table), list(to_x))
    cls = "extrapolated" if len(exp) > len(table) else "nothing-to-add"
    if len(to_x) > 1:
        try:     # the order in which the types are *listed* is not an input of the statement (the order of the table is)
            got_r = dict(extrapolate_templates(dict(table), list(reversed(to_x))))
            if list(got_r.items()) != list(exp.items()):
                out.append(dict(signature="extrapolate/differs/listed-in-another-order", observed=list(got_r.items())[:8], expected=list(exp.items())[:8]))
        except Exception as e:  # noqa
            out.append(dict(signature=f"extrapolate/exception/{type(e).__name__}/listed-in-another-order", observed=repr(e), expected="a table"))
    if list(got.items()) != list(exp.items()):
        collide = any(x.split(SEP)[-1] in x.split(SEP)[0] for x in to_x if SEP in x)
        if collide and sorted(got.values()) == sorted(exp.values()) or (collide and len(got) != len(exp)):
            sig = "extrapolate/differs/key-name-occurs-in-basetype-name"
        else:
            sig = "extrapolate/differs"
        out.append(dict(signature=sig, observed=list(got.items()), expected=list(exp.items())))
    for e in invariants(table, to_x, got):
        sig = "extrapolate/invariant/" + e
        if any(x.split(SEP)[-1] in x.split(SEP)[0] for x in to_x if SEP in x):
            sig += "/key-name-occurs-in-basetype-name"
        out.append(dict(signature=sig, observed=list(got.items()), expected=list(exp.items())))
        break
    # the result is a function of the table given, not of tables extrapolated before: right after this table, a table with
    # the same type names in the same order whose templates differ (the second key of every chain renamed)
    import re as _re
    keys2 = sorted({_re.sub(r"[{}]", "", t.split("/")[2]).split(":")[0] for t in table.values() if t.count("/") >= 2})
    if keys2 and not case.get("is_twin"):
        ren = lambda t: "/".join(("{" + _re.sub(r"[{}]", "", p).split(":")[0] + "x" + ("}" if ":" not in p else ":" + p.split(":", 1)[1])) if i == 2 else p for i, p in enumerate(t.split("/")))
        twin = {n: ren(t) for n, t in table.items()}
        try:
            got2 = dict(extrapolate_templates(dict(twin), list(to_x)))
            exp2 = ref_extrapolate(dict(twin), list(to_x))
            if list(got2.items()) != list(exp2.items()):
                out.append(dict(signature="extrapolate/differs/after-a-table-with-the-same-type-names", observed=list(got2.items())[:8], expected=list(exp2.items())[:8]))
        except Exception as e:  # noqa
            out.append(dict(signature=f"extrapolate/exception/{type(e).__name__}/after-a-table-with-the-same-type-names", observed=repr(e), expected="a table"))
    # pattern replacing on the reference table
    for sel_name, kp in case.get("patterns", []):
        work = dict(exp)
        try:
            pattern_replacing(work, kp)
        except Exception as e:  # noqa
            out.append(dict(signature=f"pattern_replacing/exception/{type(e).__name__}", observed=repr(e), expected="in place"))
            continue
        want = ref_inject(dict(exp), kp)
        if list(work.items()) != list(want.items()):
            out.append(dict(signature="pattern_replacing/differs", observed=[kp, list(work.items())], expected=list(want.items())))
        for n in exp:
            if not any(sel in n for sel in kp) and work.get(n) != exp[n]:
                out.append(dict(signature="pattern_replacing/non-selected-template-changed", observed=[n, work.get(n)], expected=exp[n]))
    return out, cls


def pattern_sets(table_names, templates):
    """7 selector classes x (find that occurs, find that does not)."""
    names = list(table_names)
    first = names[0]
    base = first.split(SEP)[0]
    occurs = "{project}"
    for t in templates:
        parts = t.split("/")
        if len(parts) > 1:
            occurs = parts[-1]
            break
    repl_occ = {occurs: "{" + key_of(occurs.strip("{}")) + r":(x|\*)}"}
    repl_no = {"{nosuchkey}": r"{nosuchkey:(x|\*)}"}
    sels = {"sep": SEP, "base_sep": base + SEP, "base": base, "letter": "t", "full": first, "none": "zzz", "empty-safe": "_"}
    out = []
    for n, s in sels.items():
        out.append((n, {s: dict(repl_occ)}))
    out.append(("two", {SEP: dict(repl_occ), base: {"{project}": r"{project:(p|\*)}"}}))
    out.append(("nofind", {SEP: dict(repl_no)}))
    return out


def loader_configs(tier):
    """(table entries, to_extrapolate, key_patterns) for the configuration *loader* (extrapolate, then inject patterns):
    selectors that tell an extrapolated type from its generated ancestors, and ones that only match generated types."""
    out = []
    n = 0
    for entries, extr in gen_tables("quick"):
        if not extr or len(entries) > 5:
            continue
        n += 1
        table = dict(entries)
        x = extr[0]
        parts = table[x].split("/")
        if len(parts) < 3:
            continue
        base = x.split(SEP)[0]
        k_last, k_mid, k_first = parts[-1], parts[len(parts) // 2], parts[1]
        pats = [
            {x: {k_mid: "{" + key_of(k_mid.strip("{}")) + r":(x|\*)}"}},                                   # names exactly the extrapolated type
            {base + SEP: {k_first: "{" + key_of(k_first.strip("{}")) + r":(y|\*)}"}},                      # all base__ types, not the bare base type
            {base + SEP + key_of(k_mid.strip("{}")): {k_mid: "{" + key_of(k_mid.strip("{}")) + r":(z|\*)}"}},   # only a generated type
            {"": {parts[0]: "{" + key_of(parts[0].strip("{}")) + r":(p|\*)}"}, x: {k_last: "{" + key_of(k_last.strip("{}")) + r":(l|\*)}"}},
        ]
        for kp in pats:
            out.append((entries, [x], kp))
            if len(extr) > 1:
                out.append((entries, extr[:2], kp))
                out.append((entries, list(reversed(extr[:3])), kp))     # listed in another order than the templates are written
    want = 480 if tier == "thorough" else 96
    step = max(1, len(out) // want)
    return out[::step][:want]


def check_loader(case, workdir):
    """Load the configuration in a fresh interpreter and compare spil.conf.sid_templates with the reference."""
    import subprocess, shutil, sys
    from mc.ref.model import ref_extrapolate, ref_inject
    from mc import env
    entries, to_x, kp = case
    d = os.path.join(workdir, "loadconf")
    shutil.rmtree(d, ignore_errors=True)
    os.makedirs(d)
    with open(os.path.join(d, "spil_sid_conf.py"), "w") as f:
        f.write("sip = '/'\nprojects = []\nsid_templates = %r\nto_extrapolate = %r\nkey_patterns = %r\nkey_types = {}\nleaf_keys = {None: 'ext'}\n"
                "extension_alias = {}\nbasetyped_search_narrowing = {}\ntyped_search_narrowing = {}\n" % (dict(entries), list(to_x), kp))
    shutil.copy(os.path.join(os.environ["VERIF_WORKDIR"], "conf", "spil_data_conf.py"), d)
    e = dict(os.environ, PYTHONPATH=os.pathsep.join([d, env.REPO]))
    p = subprocess.run([sys.executable, "-c", "import json, spil.conf as c; print('TPL ' + json.dumps(list(c.sid_templates.items())))"],
                       capture_output=True, text=True, env=e)
    line = [l for l in p.stdout.splitlines() if l.startswith("TPL ")]
    want = ref_inject(ref_extrapolate(dict(entries), list(to_x)), kp)
    if p.returncode != 0 or not line:
        return [dict(signature="loader/configuration-does-not-load", observed=(p.stderr or p.stdout)[-300:], expected=list(want.items()))]
    got = json.loads(line[-1][4:])
    if [list(x) for x in want.items()] != got:
        extra = [g[0] for g in got if g[0] not in want]
        sig = "loader/loaded-templates-differ-from-extrapolate-then-inject"
        return [dict(signature=sig, observed=got, expected=[list(x) for x in want.items()], note="extra types: %s" % extra)]
    # the second place patterns are injected: a path configuration, with its own selectors (none at all, one that matches no
    # type, the same ones as the Sid configuration) - its templates are rewritten by *its* selectors only
    raw = {t: "/r/" + v for t, v in dict(entries).items()}
    for label, kpp in (("no-selectors", {}), ("selector-matching-no-type", {"zz-no-such-type": {"{x}": "{x:(q)}"}}), ("own-selectors", kp)):
        with open(os.path.join(d, "spil_fs_conf.py"), "w") as f:
            f.write("path_templates = %r\nkey_patterns = %r\npath_mapping = {}\npath_defaults = {}\n" % (raw, kpp))
        p = subprocess.run([sys.executable, "-c", "import json\nfrom spil.sid.pathops.pathconfig import PathConfig\npc = PathConfig('local', 'spil_fs_conf')\n"
                            "print('TPL ' + json.dumps(list(pc.path_templates.items())))"], capture_output=True, text=True, env=e)
        line = [l for l in p.stdout.splitlines() if l.startswith("TPL ")]
        wantp = ref_inject(dict(raw), kpp)
        if p.returncode != 0 or not line:
            return [dict(signature="loader/path-configuration-does-not-load/" + label, observed=(p.stderr or p.stdout)[-300:], expected=list(wantp.items()))]
        gotp = json.loads(line[-1][4:])
        if [list(x) for x in wantp.items()] != gotp:
            return [dict(signature="loader/path-templates-rewritten-by-other-selectors/" + label, observed=gotp[:6], expected=[list(x) for x in wantp.items()][:6])]
    return []


def plan(tier, seed):
    return {"shards": [{"index": i, "count": 16} for i in range(16)]}


def run_shard(sh):
    rec = Recorder(sh["index"], sh["count"], sh["seed"])
    n_tables = 0
    for entries, extr in gen_tables(sh["tier"]):
        if not entries:
            continue
        n_tables += 1
        tkey = json.dumps(entries)
        for xi, to_x in enumerate(extr_subsets(extr)):
            key = tkey + "|" + ",".join(to_x)
            if not rec.mine(key):
                continue
            case = {"table": entries, "extrapolate": to_x}
            if xi <= 1:
                from mc.ref.model import ref_extrapolate
                exp = ref_extrapolate(dict(entries), to_x)
                case["patterns"] = pattern_sets(list(exp), list(exp.values()))
            viols, cls = check_case(case)
            rec.case(cls, cls != "nothing-to-add", sample={"table": entries, "extrapolate": to_x})
            for v in viols:
                rec.violation(v["signature"], "table", case, v["observed"], v["expected"])
    # the loader: extrapolation and pattern injection as spil.conf composes them, in a fresh interpreter per configuration
    lc = loader_configs(sh["tier"])
    n_loaded = 0
    for i, case in enumerate(lc):
        if i % sh["count"] != sh["index"]:
            continue
        n_loaded += 1
        viols = check_loader(case, os.environ["VERIF_WORKDIR"])
        rec.case("loaded-configuration", True, sample={"table": case[0], "extrapolate": case[1], "key_patterns": case[2]})
        for v in viols:
            rec.violation(v["signature"], "loader", [case[0], case[1], case[2]], v["observed"], v["expected"])
    rec.extra = {"tables_generated": n_tables, "configurations_loaded": n_loaded}
    return rec.result()


def replay_case(kind, case):
    if kind == "loader":
        return check_loader(case, os.environ["VERIF_WORKDIR"])
    return check_case(case)[0]


def coverage(m, tier, seed):
    return {"bounds": {"chain_max": 9 if tier == "thorough" else 8, "two_basetypes_chain_max": 5 if tier == "thorough" else 4},
            "exhaustive": True}
