"""C17 - an interrupted attribute write leaves the old or the new data, never a ruin.

E3: for every (pre-state, operation) history the file-system effect log of the real write is recorded; every crash state
(every prefix of the log, every append cut at every byte) is rebuilt on a copy of the pre-state tree and recovered from.
Second half: every corruption of a sidecar (cut at each byte, emptied, directory, unreadable, EIO, invalid UTF-8).
"""
from __future__ import annotations
import os, json, errno
from mc.rec import Recorder
from mc import faultfs
from props import c15

ID = "C17"
LEVEL = "fault_enumeration"
ENGINE = "E3-crash-and-fault-enumeration"
TECHNIQUE = "exhaustive crash-point enumeration over the recorded file-system effect log of the real write path + exhaustive sidecar corruption"
RULE = ("crash cases = (pre-state, completed first operation or none, crashing operation, crash point): pre-states = {no "
        "sidecar, {a:1}, three keys with a non-ASCII value, sidecar shared by two files differing by extension, neighbouring "
        "sidecars of the version folder and a movie file, the file's other state existing as a symbolic link to the file (with and "
        "without data of its own)}; operations = set(e,a=2), set(e,b=1), set(e,a=2,b=1), set(e,'a',2,c=3,d=4), update(e,{a:2,b:2}), "
        "create(e,{a:1}) on the file / its extension sibling / the version folder; crash points = every prefix of the "
        "recorded effect log, every append cut at every byte boundary. corruption cases = every pre-state sidecar x {cut at "
        "each byte 0..n-1, directory, PermissionError, EIO, invalid UTF-8}. distinct = distinct crash states / corruptions; "
        "non-trivial = the crash state differs from both the pre- and the post-state tree, or any corruption."
        " Added: every (pre-state, operation) once more with the process's temporary directory on the tree's file system; files renamed in from outside the tree, refused renames and sendfile are part of the effect log.")
ASSUMPTIONS = ["crash model = process death: issued effects persist in order (no power-loss reordering)",
               "a sidecar holding valid JSON that is not a mapping is outside the statement ('not valid JSON')",
               "interception completeness is checked per history: effect log replayed on the pre-state must equal the real tree"]

PRE = {
    "none": {},
    "a1": {"F1": {"a": 1}},
    "three-keys": {"F1": {"a": 1, "name": "Ophélie", "n": [1, 2]}},
    "shared": {"F2": {"a": 1, "from": "F2"}},
    "neighbours": {"F1": {"a": 1}, "V1": {"v": 1}, "M1": {"m": 1}},
    "linked": {"F1": {"a": 1, "from": "F1"}},          # and L1 (the file in its other state) exists as a symbolic link to F1's file
    "linked-both-data": {"F1": {"a": 1, "from": "F1"}, "L1": {"a": 8, "from": "L1"}},
}
LINK_OPS = [["set", "L1", {"a": 5}], ["update", "L1", {"a": 7, "b": 2}]]
OPS = [["set", "F1", {"a": 2}], ["setkw", "F1", {"b": 1}], ["update", "F1", {"a": 2, "b": 2}], ["set", "F2", {"a": 3}], ["update", "V1", {"v": 2}],
       ["create", "F3", {"a": 1}], ["setkw", "F1", {"a": 2, "b": 1}], ["setmix", "F1", {"a": 2, "c": 3, "d": 4}]]
FIRSTS = [None, ["set", "F1", {"z": 0}]]


BIG = ["update", "F1", {"big": "x" * 9000, "a": 2}]   # more than one buffer: the temporary file is written in two pieces


TIER = ["quick"]


def histories(tier="quick"):
    for pn in PRE:
        for first in FIRSTS:
            for op in OPS + (LINK_OPS if pn.startswith("linked") else []):
                yield [pn, first, op]
    # the same histories with the process's temporary directory on the file system of the project tree (the default one
    # usually is on another file system: a temporary file made there cannot be renamed into the tree, only copied)
    for pn in PRE:
        for op in OPS + (LINK_OPS if pn.startswith("linked") else []):
            yield [pn, None, op, "tmpdir-on-tree-fs"]
    # a write larger than one buffer: bytes reach the file while the writing code is still in the middle of its work
    # (thorough: every byte boundary; quick: the effect boundaries, three cuts per piece and the interrupt model)
    yield ["a1", None, BIG]
    if tier == "thorough":
        yield ["none", None, BIG]


def build_pre(C, pn):
    """Entities F1 F2 M1 V1 exist; sidecars as in PRE (written with plain I/O through the reference paths)."""
    from mc import env, tree
    env.clear_tree()
    c0 = C["names"][0]
    pr = C["prs"][c0]
    ents = [C["E"][k] for k in ("F1", "F2", "M1", "V1", "D1")]
    tree.materialize(C["ref"], pr, ents)
    if pn.startswith("linked") and "L1" in C["E"]:
        os.symlink(tree.entity_path(C["ref"], pr, C["E"]["F1"])[0], tree.entity_path(C["ref"], pr, C["E"]["L1"])[0])
    for k, d in PRE[pn].items():
        p = tree.entity_path(C["ref"], pr, C["E"][k])[0]
        with open(pr.sidecar(p), "w") as f:
            f.write(json.dumps(d, indent=4, default=str))


def reads(C):
    """All reads a user can make after recovery: fresh objects, cold caches."""
    from spil import GetFromPaths, FindInPaths, FindInAll, Sid
    from mc import env
    env.reset()
    c0 = C["names"][0]
    out = {"data": {}, "find": {}}
    for k in ("F1", "F2", "F3", "M1", "V1", "D1", "L1"):
        if k not in C["E"]:
            continue
        try:
            out["data"][k] = GetFromPaths(c0).get_data(C["E"][k])
        except Exception as e:  # noqa
            out["data"][k] = "EXC " + type(e).__name__
        # the single-value reads (the other read API): through the Getter, through GetFromAll, through the Sid
        try:
            from spil import GetFromAll
            out.setdefault("attr", {})[k] = [GetFromPaths(c0).get_attr(C["E"][k], "a"), GetFromAll().get_attr(C["E"][k], "a"), Sid(C["E"][k]).get_attr("a")]
        except Exception as e:  # noqa
            out.setdefault("attr", {})[k] = "EXC " + type(e).__name__
    for s in c15.search_menu(C)[:15]:
        try:
            out["find"][s] = [sorted(FindInPaths(c0).find(s, as_sid=False)), sorted(FindInAll().find(s, as_sid=False))]
        except Exception as e:  # noqa
            out["find"][s] = "EXC " + type(e).__name__
    return json.loads(json.dumps(out, default=str))


def sidecar_key(C, k):
    from mc import tree
    pr = C["prs"][C["names"][0]]
    # as the statement scopes it: the entity's path without its final extension (not what the configuration answers)
    return os.path.splitext(tree.entity_path(C["ref"], pr, C["E"][k])[0])[0]


def sidecar_file(C, k):
    """Where the configuration keeps the data file of the entity (the location is the configuration's business)."""
    from mc import tree
    pr = C["prs"][C["names"][0]]
    return pr.sidecar(tree.entity_path(C["ref"], pr, C["E"][k])[0])


def run_history(C, h, rec, only_state=None):
    """Record the effect log of the crashing operation, enumerate its crash states, recover from each."""
    from spil import WriteToPaths, SpilException
    c0 = C["names"][0]
    root = C["prs"][c0].root()
    pn, first, op = h[:3]
    import tempfile
    tempfile.tempdir = None
    if len(h) > 3 and h[3] == "tmpdir-on-tree-fs":
        tempfile.tempdir = root.rstrip("/") + "_tmp"
        os.makedirs(tempfile.tempdir, exist_ok=True)
    rec.extra.setdefault("tmpdir_on_other_fs", os.stat(tempfile.gettempdir()).st_dev != os.stat(root).st_dev if os.path.exists(root) else None)
    build_pre(C, pn)
    if first:
        r = c15.apply_real(C, first)
        if r is not True:
            rec.violation("setup-operation-failed", "crash", {"hist": h}, r, True)
            return
    pre = faultfs.snapshot(root)
    old = reads(C)
    faultfs.install(root)
    try:
        r = c15.apply_real(C, op)
        log = list(faultfs.LOG)
    finally:
        faultfs.uninstall()
    if r is not True:
        rec.violation("crashing-operation-failed-without-crash", "crash", {"hist": h}, r, True)
        return
    post = faultfs.snapshot(root)
    if faultfs.apply_effects(pre, log, root) != post:
        raise RuntimeError(f"uninstrumented effect: effect log replayed on the pre-state differs from the real tree for {h}: "
                           f"{faultfs.describe(log, root)}")
    new = reads(C)
    target = op[1]
    tkey = sidecar_key(C, target)
    same_sidecar = [k for k in old["data"] if sidecar_key(C, k) == tkey]
    n_states = 0
    for label, model in faultfs.crash_states(pre, log, root, cuts=(op != BIG or TIER[0] == "thorough")):
        n_states += 1
        if only_state is not None and label != only_state:
            continue
        faultfs.materialize(model, root)
        got = reads(C)
        trivial = model == pre or model == post
        viols = []
        for k in got["data"]:
            if k in same_sidecar or (op[0] == "create" and k == target):
                if got["data"][k] not in (old["data"][k], new["data"][k]):
                    sig = "read-after-crash-is-neither-old-nor-new"
                    if isinstance(got["data"][k], str):
                        sig = "read-after-crash-raises/" + got["data"][k].split()[-1]
                    viols.append(dict(signature=sig, observed=[k, got["data"][k]], expected=[old["data"][k], new["data"][k]]))
            elif got["data"][k] != old["data"][k]:
                viols.append(dict(signature="crash-changes-data-of-another-sid", observed=[k, got["data"][k]], expected=old["data"][k]))
        for k in got.get("attr", {}):
            allowed = (old["attr"][k], new["attr"][k]) if (k in same_sidecar or (op[0] == "create" and k == target)) else (old["attr"][k],)
            if got["attr"][k] not in allowed:
                sig = "single-value-read-after-crash-differs"
                if isinstance(got["attr"][k], str):
                    sig = "single-value-read-after-crash-raises/" + got["attr"][k].split()[-1]
                viols.append(dict(signature=sig, observed=[k, got["attr"][k]], expected=list(allowed)))
                break
        for s in got["find"]:
            if got["find"][s] not in ((old["find"][s], new["find"][s]) if op[0] == "create" else (old["find"][s],)):
                viols.append(dict(signature="crash-changes-a-search-result", observed=[s, got["find"][s]], expected=old["find"][s]))
                break
        # the next write on the Sid succeeds, and adds to what was read
        before = got["data"][target]
        exists_now = os.path.exists(c15.Model(C).path(target))
        if exists_now and isinstance(before, dict):
            try:
                r2 = WriteToPaths(c0).set(C["E"][target], c=3)
                after = reads(C)["data"][target]
                want = dict(before)
                want["c"] = 3
                if r2 is not True or after != want:
                    viols.append(dict(signature="next-write-after-crash-wrong", observed=[r2, after], expected=want))
            except Exception as e:  # noqa
                viols.append(dict(signature=f"next-write-after-crash-raises/{type(e).__name__}", observed=repr(e)[:100], expected="True"))
        rec.case("trivial-state" if trivial else "intermediate-state", not trivial, sample={"hist": h, "state": label})
        for v in viols:
            rec.violation(v["signature"], "crash", {"hist": h, "state": label}, v["observed"], v["expected"])
    # the other way to die: an interrupt / an error raised in place of the k-th effect, cleanup handlers run (finally, with)
    if only_state is None or str(only_state).startswith("interrupt"):
        for k in range(len(log)):
            label = f"interrupt in place of effect {k} of {len(log)}"
            if only_state is not None and label != only_state:
                continue
            build_pre(C, pn)
            if first:
                c15.apply_real(C, first)
            faultfs.install(root)
            faultfs.LOG.raise_at = k
            died = False
            try:
                c15.apply_real(C, op)
            except BaseException:  # noqa
                died = True
            finally:
                faultfs.LOG.raise_at = None
                faultfs.uninstall()
            got = reads(C)
            viols = []
            for kk in got["data"]:
                allowed = (old["data"][kk], new["data"][kk]) if (kk in same_sidecar or (op[0] == "create" and kk == target)) else (old["data"][kk],)
                if got["data"][kk] not in allowed:
                    viols.append(dict(signature="read-after-interrupted-write-is-neither-old-nor-new" if len(allowed) == 2 else "interrupted-write-changes-data-of-another-sid",
                                      observed=[kk, got["data"][kk]], expected=list(allowed)))
                    break
            if not viols and os.path.exists(c15.Model(C).path(target)) and isinstance(got["data"][target], dict):
                try:
                    r2 = WriteToPaths(c0).set(C["E"][target], c=3)
                    after = reads(C)["data"][target]
                    want = dict(got["data"][target], c=3)
                    if r2 is not True or after != want:
                        viols.append(dict(signature="next-write-after-interrupted-write-wrong", observed=[r2, after], expected=want))
                except Exception as e:  # noqa
                    viols.append(dict(signature=f"next-write-after-interrupted-write-raises/{type(e).__name__}", observed=repr(e)[:100], expected="True"))
            rec.case("interrupted-write" if died else "interrupt-not-reached", died, sample={"hist": h, "state": label})
            for v in viols:
                rec.violation(v["signature"], "crash", {"hist": h, "state": label}, v["observed"], v["expected"])
    rec.extra.setdefault("effect_logs", []).append({"hist": [pn, first and first[0], op[0] + ":" + op[1]], "effects": faultfs.describe(log, root), "crash_states": n_states})
    rec.traces += 1


def corruptions(C):
    for pn, d in PRE.items():
        for k, content in d.items():
            text = json.dumps(content, indent=4, default=str).encode()
            for cut in range(0, len(text)):
                yield [pn, k, "cut", cut]
            for kind in ("directory", "PermissionError", "EIO", "invalid-utf8", "binary-garbage"):
                yield [pn, k, kind, 0]


def run_corruption(C, case, rec):
    from mc import tree
    pn, k, kind, cut = case
    c0 = C["names"][0]
    pr = C["prs"][c0]
    build_pre(C, pn)
    old = reads(C)
    sc = sidecar_file(C, k)
    text = json.dumps(PRE[pn][k], indent=4, default=str).encode()
    faults = {}
    if kind == "cut":
        with open(sc, "wb") as f:
            f.write(text[:cut])
    elif kind == "directory":
        os.unlink(sc)
        os.mkdir(sc)
    elif kind == "invalid-utf8":
        with open(sc, "wb") as f:
            f.write(b"\xff\xfe" + text)
    elif kind == "binary-garbage":
        with open(sc, "wb") as f:
            f.write(bytes(range(256)))
    elif kind == "PermissionError":
        faults[sc] = PermissionError(errno.EACCES, "Permission denied", sc)
    elif kind == "EIO":
        faults[sc] = OSError(errno.EIO, "Input/output error", sc)
    if faults:
        faultfs.install_read_faults(faults)
    try:
        got = reads(C)
    finally:
        faultfs.uninstall()
    same = [x for x in old["data"] if sidecar_key(C, x) == sidecar_key(C, k)]
    viols = []
    for x in got["data"]:
        if x in same:
            want = {"sid": C["E"][x]} if c15.Model(C).path(x) else {}
            if got["data"][x] != want:
                sig = "damaged-sidecar-read-is-not-just-sid"
                if isinstance(got["data"][x], str):
                    sig = "damaged-sidecar-read-raises/" + got["data"][x].split()[-1]
                viols.append(dict(signature=sig + "/" + kind, observed=[x, got["data"][x]], expected=want))
        elif got["data"][x] != old["data"][x]:
            viols.append(dict(signature="damaged-sidecar-changes-another-read/" + kind, observed=[x, got["data"][x]], expected=old["data"][x]))
    for x in got.get("attr", {}):
        if x in same:
            want = [None, None, None]
            if got["attr"][x] != want:
                sig = "damaged-sidecar-single-value-read-is-not-none"
                if isinstance(got["attr"][x], str):
                    sig = "damaged-sidecar-single-value-read-raises/" + got["attr"][x].split()[-1]
                viols.append(dict(signature=sig + "/" + kind, observed=[x, got["attr"][x]], expected=want))
        elif got["attr"][x] != old["attr"][x]:
            viols.append(dict(signature="damaged-sidecar-changes-another-read/" + kind, observed=[x, got["attr"][x]], expected=old["attr"][x]))
    for s in got["find"]:
        if got["find"][s] != old["find"][s]:
            viols.append(dict(signature="damaged-sidecar-changes-a-search/" + kind, observed=[s, got["find"][s]], expected=old["find"][s]))
            break
    rec.case("corruption:" + kind, True, sample=case)
    for v in viols:
        rec.violation(v["signature"], "corruption", case, v["observed"], v["expected"])


def plan(tier, seed):
    n = 12
    return {"shards": [{"mode": "crash", "index": i, "count": n} for i in range(n)] + [{"mode": "damage", "index": i, "count": 4} for i in range(4)]}


def run_shard(sh):
    C = c15.ctx()
    TIER[0] = sh["tier"]
    rec = Recorder(0, 1, sh["seed"])
    if sh["mode"] == "crash":
        for i, h in enumerate(histories(sh["tier"])):
            if i % sh["count"] != sh["index"]:
                continue
            run_history(C, h, rec)
    else:
        for i, case in enumerate(corruptions(C)):
            if i % sh["count"] != sh["index"]:
                continue
            run_corruption(C, case, rec)
    return rec.result()


def replay_case(kind, case):
    C = c15.ctx()
    rec = Recorder()
    if kind == "crash":
        run_history(C, case["hist"], rec, only_state=case.get("state"))
    else:
        run_corruption(C, case, rec)
    return [v for lst in rec.violations.values() for v in lst]


def coverage(m, tier, seed):
    logs = [l for e in m["extra"] for l in e.get("effect_logs", [])]
    return {"exhaustive": True, "histories": len(logs), "crash_states": sum(l["crash_states"] for l in logs),
            "effect_log_examples": logs[:3], "traces_validated_against_impl": len(logs)}
