"""C09 - the '>' (last) operator returns the greatest entry of each group.

E1 on three kinds of Finder: every base Sid of generated universes x '>' at each position (optionally a second '>'
further right) x <=k further edits ('*', alias, comma list, '**', filters), restricted to searches whose unfolded forms
carry '>' at one common position; Sid.get_last(key) for every existing / non-existing Sid and key.
Oracle: mc.ref.store.last_of_groups over the reference store (per-segment comparison, one per group).
"""
from __future__ import annotations
import itertools
from mc.rec import Recorder
from mc import searchgen, worlds
from props import c11

ID = "C09"
LEVEL = "exploration"
RULE = ("inputs = (universe, search): universes with sparse / dense version sets and names containing characters that sort "
        "below '/' ('-', '.', '+') at the open-name levels; searches = for each base (one existing entity per type) '>' at "
        "each position, optionally a second '>' further right, combined with <=k further edits from the C07 menu ('*', "
        "aliases, comma lists, '**', filters incl. version=>), kept when all unfolded forms carry '>' at one position; each on "
        "FindInList, FindInPaths(local/server), FindInAll; plus get_last(key) for every key of every base and of "
        "non-existing neighbours. distinct = distinct (universe, search); non-trivial = some entry matches with '>' read as '*'.")
ASSUMPTIONS = c11.ASSUMPTIONS


def searches(ref, W, k):
    yield from c11.cross_basetype_last(ref, W)
    for typ in ref.types:
        cands = [p for p in sorted(W.store.paths) if ref.natural(p)[0] == typ] + [s for s in W.leaves if ref.natural(s)[0] == typ]
        if not cands:
            from mc import datagen
            cands = [p for p in datagen.closure_list(ref, W.leaves) if ref.natural(p)[0] == typ]
        if not cands:
            continue
        for base in (cands[0], cands[-1]):
            segs = base.split("/")
            n = len(segs)
            se = [e for e in searchgen.segment_edits(ref, typ, segs, False, True)]
            qm = searchgen.query_menu(ref, typ, segs)
            menu = [("e", e) for e in se] + [("q", q) for q in qm]
            for i in range(n):
                lasts = [[("seg", i, ">")]] + [[("seg", i, ">"), ("seg", j, ">")] for j in range(i + 1, n)]
                for le in lasts:
                    yield searchgen.build(segs, le, [])
                    for r in range(1, k + 1):
                        for combo in itertools.combinations(menu, r):
                            ed = le + [x[1] for x in combo if x[0] == "e"]
                            qs = [x[1] for x in combo if x[0] == "q"]
                            if not searchgen.compatible(ed) or len({q.split("=")[0] for q in qs}) != len(qs):
                                continue
                            yield searchgen.build(segs, ed, qs)
            if base == cands[0] and len(cands) == 1:
                break


def symbol_acceptance(ref, only=None):
    from spil import Sid
    from mc import universe
    out = []
    conc = universe.one_per_type(ref)
    for typ in ref.types:
        segs = conc[typ].split("/")
        for i, (k, p) in enumerate(ref.templates[typ]):
            if only and [typ, k] != only:
                continue
            star = Sid(typ + ":" + "/".join(segs[:i] + ["*"] + segs[i + 1:]))
            last = Sid(typ + ":" + "/".join(segs[:i] + [">"] + segs[i + 1:]))
            if bool(star) != bool(last):
                out.append(dict(signature="last-symbol-not-accepted-where-star-is/last", case=[typ, k], observed=[star.uri, bool(star), last.uri, bool(last)], expected="both typed"))
    return out


def relevant(sig):
    """C09 judges the '>' answers (and failures); what C11 owns (type-blind list matching) is not re-reported here."""
    return "/last" in sig or sig.startswith(("exception", "duplicates", "unexpected-SpilException", "local-and-server"))


def get_last_cases(ref, W):
    seen = set()
    for typ in ref.types:
        cands = [p for p in sorted(W.store.paths) if ref.natural(p)[0] == typ] + [s for s in W.leaves if ref.natural(s)[0] == typ]
        for base in cands[:3]:
            segs = base.split("/")
            keys = ref.keys(typ)
            variants = [segs]
            # a non-existing neighbour: another (valid) value at the last open/digit position
            for i in range(len(segs) - 1, 0, -1):
                vals = [v for v in searchgen.key_values(ref, typ, i) if v != segs[i] and v not in ref.alias]
                if vals:
                    variants.append(segs[:i] + [vals[-1]] + segs[i + 1:])
                    break
            for sg in variants:
                for key in keys[1:] + [None]:
                    c = ("/".join(sg), key)
                    if c not in seen:
                        seen.add(c)
                        yield c


def check_get_last(ref, W, s, key):
    from spil import Sid
    from spil.sid.read.tools import unfold_search
    out = []
    x = Sid(s)
    k = key or x.keytype
    try:
        got = x.get_last(key) if key else x.get_last()
    except Exception as e:  # noqa
        return [dict(signature=f"get_last/exception/{type(e).__name__}", observed=repr(e)[:120], expected="a Sid")], "exception"
    srch = x.get_with(key=k, value=">")
    from mc.ref import search as rs
    typed = rs.denoted_typed(ref, srch.string, [(u.type, u.string) for u in unfold_search(srch)]) if srch else []
    exp, _ = W.store.do_find("all", typed)
    want = sorted(exp)[0] if len(exp) == 1 else ""
    if len(exp) > 1:
        return out, "get_last-ambiguous"
    if got.string != want or (want and not got):
        out.append(dict(signature="get_last/differs", observed=got.uri, expected=want))
    return out, "get_last:" + ("found" if want else "none")


def plan(tier, seed):
    unis = ["full", "sparse", "one-basetype"] + (["dense-versions", "names-only"] if tier == "thorough" else [])
    n = 6 if tier == "thorough" else 5
    shards = []
    for u in unis:
        nn = 16 if (tier == "thorough" and u == "sparse") else n     # the deep (k=2) universe gets more shards
        shards += [{"universe": u, "index": i, "count": nn, "first_index": (0, -1)[i % 2]} for i in range(nn)]
    return {"shards": shards}


def run_shard(sh):
    from mc.ref.model import Conf
    from mc.ref import store as rstore
    from mc import env
    ref = Conf()
    W = worlds.World(ref, worlds.universes(ref, "thorough")[sh["universe"]], sh["universe"])
    first = worlds.touch_first(W.names[sh.get("first_index", 0)])
    errs = rstore.bind_sources(W.sources, ref)
    if errs:
        raise RuntimeError("source description does not match the routing code: " + "; ".join(errs))
    W.materialize()
    fs = W.finders()
    rec = Recorder(sh["index"], sh["count"], sh["seed"])
    k = 2 if (sh["tier"] == "thorough" and sh["universe"] == "sparse") else 1
    for s in searches(ref, W, k):
        if not rec.mine(sh["universe"] + "|" + s):
            continue
        env.reset()
        v, cls, ans = c11.check_case(ref, W, fs, s)
        cls = "last/" + cls
        rec.case(cls, cls == "last/nonempty", sample=[sh["universe"], s])
        for x in v:
            if relevant(x["signature"]):
                rec.violation(x["signature"], "search", [sh["universe"], s], x["observed"], x["expected"])
    for s, key in get_last_cases(ref, W):
        if not rec.mine(sh["universe"] + "|get_last|" + s + "|" + str(key)):
            continue
        env.reset()
        v, cls = check_get_last(ref, W, s, key)
        rec.case(cls, cls == "get_last:found", sample=[sh["universe"], "get_last", s, key])
        for x in v:
            rec.violation(x["signature"], "get_last", [sh["universe"], s, key], x["observed"], x["expected"])
    # the statement reads a '>' as a '*' that is sorted afterwards: wherever the loaded configuration lets a '*' stand, a '>' must
    # be able to stand too - otherwise entries that match the '*' reading can never be the answer
    if sh["index"] == 0:
        for v in symbol_acceptance(ref):
            rec.violation(v["signature"], "symbols", v["case"], v["observed"], v["expected"])
        rec.case("last/symbol-acceptance", True)
    rec.extra = {"universe": sh["universe"], "entities": len(W.leaves), "first_loaded": first}
    return worlds.tag_first(rec.result(), first)


def replay_case(kind, case):
    from mc.ref.model import Conf
    from mc import env
    ref = Conf()
    worlds.touch_first()
    if kind == "symbols":
        return symbol_acceptance(ref, only=case)
    W = worlds.World(ref, worlds.universes(ref, "thorough")[case[0]], case[0])
    W.materialize()
    env.reset()
    if kind == "get_last":
        return check_get_last(ref, W, case[1], case[2])[0]
    return [x for x in c11.check_case(ref, W, W.finders(), case[1])[0] if relevant(x["signature"])]


def coverage(m, tier, seed):
    return {"bounds": {"k_further_edits": "2 on the sparse universe, 1 elsewhere" if tier == "thorough" else 1, "second_last": True}, "exhaustive": True}
