"""E3: file-system effect log of the real write path, and reconstruction of every crash state.

The shim intercepts every effect the write path can issue (builtins.open / io.open in write modes and the returned
object's write/close, os.open/write/close/replace/rename/unlink/remove/mkdir/rmdir/truncate/link), records an ordered
effect log while still performing the effect.  Crash states = every prefix of the log, with every APPEND cut at every
byte boundary, rebuilt on a copy of the pre-state tree: process death exactly (effects are ordered, the OS keeps what
was issued), independent of Python's buffering and exception unwinding.
Completeness of the interception is checked per run by the caller: apply_effects(pre, log) must equal the real tree.
"""
from __future__ import annotations
import builtins, io, os, shutil, errno

class _Log(list):
    """The effect log. With raise_at = k the k-th effect is not performed: KeyboardInterrupt is raised in its place, once - the
    process "dies" the way an interrupt or an I/O error kills it, with Python's cleanup handlers (finally, with) still running."""
    raise_at = None

    def append(self, x):
        if self.raise_at is not None and len(self) == self.raise_at:
            self.raise_at = None
            raise KeyboardInterrupt("injected in place of effect %d" % len(self))
        super().append(x)


LOG = _Log()
ROOT = None
FAIL: dict = {}     # path -> exception instance to raise on open (fault injection for reads)
_real_open = builtins.open
_real_io_open = io.open
_real_os = {n: getattr(os, n) for n in ("open", "write", "close", "replace", "rename", "unlink", "remove", "mkdir", "rmdir", "truncate", "link", "symlink")}
FDS: dict = {}
SHIMS: dict = {}   # descriptor -> ShimFile (effects issued through the descriptor: sendfile)
_real_sendfile = getattr(os, "sendfile", None)


def watched(p):
    try:
        p = os.path.abspath(os.fspath(p))
    except TypeError:
        return False
    return bool(ROOT) and p.startswith(ROOT)


INO: dict = {}      # live map path -> inode id (appends follow the open file, not its name)
_next = [0]


def _ino_of(path, create=False):
    if create or path not in INO:
        if create:
            _next[0] += 1
            INO[path] = "new:%d" % _next[0]
        else:
            INO[path] = "pre:" + os.path.relpath(path, ROOT)
    return INO[path]


BUFFER = 8192   # io.DEFAULT_BUFFER_SIZE: what CPython's BufferedWriter / TextIOWrapper hold back before the OS sees it


class ShimFile:
    """A write-mode file whose buffering is explicit: bytes given to write() reach the operating system (and the effect
    log) only on flush(), close() or when more than BUFFER bytes are pending - as with CPython's buffered files.  A
    process that dies loses what is still pending; an effect issued in between (os.replace ...) really is in between."""

    def __init__(self, path, mode, encoding, real, ino):
        import locale
        enc = encoding if encoding and encoding != "locale" else (locale.getencoding() if hasattr(locale, "getencoding") else "utf-8")
        self.path, self.mode, self.encoding, self.real, self.closed_, self.ino = path, mode, enc, real, False, ino
        self.binary = "b" in mode
        self.pending = bytearray()
        self.name = path
        try:
            SHIMS[real.fileno()] = self
        except Exception:  # noqa
            pass

    def write(self, s):
        b = bytes(s) if isinstance(s, (bytes, bytearray, memoryview)) else s.encode(self.encoding)
        self.pending += b
        if len(self.pending) > BUFFER:
            self._issue()
        return len(s)

    def _issue(self):
        if self.pending:
            data = bytes(self.pending)
            del self.pending[:]
            LOG.append(("APPEND", self.path, data, self.ino))
            self.real.write(data)

    def writelines(self, lines):
        for l in lines:
            self.write(l)

    def flush(self):
        self._issue()

    def close(self):
        if not self.closed_:
            self.closed_ = True
            self._issue()
            LOG.append(("CLOSE", self.path))
            try:
                SHIMS.pop(self.real.fileno(), None)
            except Exception:  # noqa
                pass
            self.real.close()

    @property
    def closed(self):
        return self.closed_

    def writable(self):
        return True

    def readable(self):
        return False

    def fileno(self):
        return self.real.fileno()

    def __enter__(self):
        return self

    def __exit__(self, *a):
        self.close()

    def __del__(self):
        try:
            self.close()
        except Exception:  # noqa
            pass


def shim_open(file, mode="r", buffering=-1, encoding=None, errors=None, newline=None, closefd=True, opener=None):
    if not isinstance(file, int):
        try:
            ap = os.path.abspath(os.fspath(file))
        except TypeError:
            ap = None
        if ap in FAIL:
            raise FAIL[ap]
    if isinstance(file, int):
        path = FDS.get(file)
        if path and any(c in mode for c in "wax+"):
            rmode = ("w" if "w" in mode else ("a" if "a" in mode else "x")) + "b"
            real = _real_open(file, rmode, 0, closefd=closefd)
            return ShimFile(path[0], mode, encoding, real, path[1])
        return _real_open(file, mode, buffering, encoding, errors, newline, closefd, opener)
    if watched(file) and any(c in mode for c in "wax+"):
        path = os.path.abspath(os.fspath(file))
        existed = os.path.exists(path)
        if "w" in mode:
            LOG.append(("TRUNC", path) if existed else ("CREATE", path, _ino_of(path, create=True)))
        elif not existed:
            LOG.append(("CREATE", path, _ino_of(path, create=True)))
        if "+" in mode:
            raise RuntimeError("faultfs: update mode %r is not modelled" % mode)
        rmode = ("w" if "w" in mode else ("a" if "a" in mode else "x")) + "b"
        real = _real_open(file, rmode, 0)
        return ShimFile(path, mode, encoding, real, _ino_of(path))
    return _real_open(file, mode, buffering, encoding, errors, newline, closefd, opener)


def shim_os_open(path, flags, mode=0o777, *, dir_fd=None):
    if watched(path):
        p = os.path.abspath(os.fspath(path))
        existed = os.path.exists(p)
        if flags & os.O_CREAT and not existed:
            LOG.append(("CREATE", p, _ino_of(p, create=True)))
        elif flags & os.O_TRUNC and existed:
            LOG.append(("TRUNC", p))
        fd = _real_os["open"](path, flags, mode, dir_fd=dir_fd)
        if flags & (os.O_WRONLY | os.O_RDWR):
            FDS[fd] = (p, _ino_of(p))
        return fd
    return _real_os["open"](path, flags, mode, dir_fd=dir_fd)


def shim_os_write(fd, data):
    if fd in FDS:
        LOG.append(("APPEND", FDS[fd][0], bytes(data), FDS[fd][1]))
    return _real_os["write"](fd, data)


def shim_os_close(fd):
    FDS.pop(fd, None)
    return _real_os["close"](fd)


def _mk2(name, tag):
    def f(a, b, *ar, **kw):
        wa, wb = watched(a), watched(b)
        if not (wa or wb):
            return _real_os[name](a, b, *ar, **kw)
        pa, pb = os.path.abspath(os.fspath(a)), os.path.abspath(os.fspath(b))
        saved = dict(INO)
        if wa and wb:
            LOG.append((tag, pa, pb))
            ino = _ino_of(pa)
            if tag == "REPLACE":
                INO.pop(pa, None)
            INO[pb] = ino
        elif wb:
            # a file from outside the watched tree is renamed / linked into it: it arrives whole, under a new inode
            with _real_open(pa, "rb") as fh:
                content = fh.read()
            LOG.append(("IMPORT", pb, content, _ino_of(pb, create=True)))
        else:
            # a watched file leaves the tree (rename) - for the tree it is gone; a link out of the tree changes nothing in it
            if tag == "REPLACE":
                LOG.append(("UNLINK", pa))
                INO.pop(pa, None)
        n = len(LOG)
        try:
            return _real_os[name](a, b, *ar, **kw)
        except OSError:
            # the operating system refused (EXDEV, ENOENT ...): nothing happened, the caller may go on another way
            if len(LOG) == n and n and LOG[-1][0] in (tag, "IMPORT", "UNLINK"):
                list.pop(LOG)
            INO.clear()
            INO.update(saved)
            raise
    return f


def shim_sendfile(out_fd, in_fd, offset, count, *ar, **kw):
    """shutil's fast copy writes through the descriptor of the destination file, not through its write()."""
    sf = SHIMS.get(out_fd)
    if sf is not None and not sf.closed_ and offset is not None:
        sf._issue()
        data = os.pread(in_fd, count, offset)
        if data:
            LOG.append(("APPEND", sf.path, data, sf.ino))
            sent = _real_sendfile(out_fd, in_fd, offset, len(data), *ar, **kw)
            if sent != len(data):
                raise RuntimeError("faultfs: sendfile wrote %d of %d logged bytes" % (sent, len(data)))
            return sent
    elif out_fd in FDS and offset is not None:
        data = os.pread(in_fd, count, offset)
        if data:
            LOG.append(("APPEND", FDS[out_fd][0], data, FDS[out_fd][1]))
            return _real_sendfile(out_fd, in_fd, offset, len(data), *ar, **kw)
    return _real_sendfile(out_fd, in_fd, offset, count, *ar, **kw)


def _mk1(name, tag):
    def f(a, *ar, **kw):
        if watched(a):
            LOG.append((tag, os.path.abspath(os.fspath(a))))
        return _real_os[name](a, *ar, **kw)
    return f


def install(root):
    global ROOT
    ROOT = os.path.abspath(root)
    del LOG[:]
    INO.clear()
    FDS.clear()
    SHIMS.clear()
    if _real_sendfile:
        os.sendfile = shim_sendfile
    builtins.open = shim_open
    io.open = shim_open
    os.open, os.write, os.close = shim_os_open, shim_os_write, shim_os_close
    os.replace, os.rename, os.link = _mk2("replace", "REPLACE"), _mk2("rename", "REPLACE"), _mk2("link", "LINK")
    os.unlink, os.remove = _mk1("unlink", "UNLINK"), _mk1("remove", "UNLINK")
    os.mkdir, os.rmdir, os.truncate = _mk1("mkdir", "MKDIR"), _mk1("rmdir", "RMDIR"), _mk1("truncate", "TRUNC")


def uninstall():
    builtins.open = _real_open
    io.open = _real_io_open
    for n, f in _real_os.items():
        setattr(os, n, f)
    if _real_sendfile:
        os.sendfile = _real_sendfile
    FAIL.clear()


def install_read_faults(faults: dict):
    """Only fault injection on open (no effect logging): path -> exception."""
    FAIL.clear()
    FAIL.update({os.path.abspath(k): v for k, v in faults.items()})
    builtins.open = shim_open
    io.open = shim_open


def snapshot(root):
    out = {}
    for d, ds, fs in os.walk(root):
        for x in ds:
            out[os.path.relpath(os.path.join(d, x), root)] = None
        for x in fs:
            if os.path.islink(os.path.join(d, x)):
                out[os.path.relpath(os.path.join(d, x), root)] = ("symlink", os.readlink(os.path.join(d, x)))    # kept as it is: no effect goes through it
                continue
            with _real_open(os.path.join(d, x), "rb") as f:
                out[os.path.relpath(os.path.join(d, x), root)] = f.read()
    return out


def apply_effects(model, effects, root):
    """model: {relative path: bytes | None(dir)}.  Appends follow the inode of the open file (a file that was renamed
    while open keeps receiving the bytes under its new name)."""
    paths = {k: (None if v is None else "pre:" + k) for k, v in model.items()}
    data = {"pre:" + k: v for k, v in model.items() if v is not None}
    for e in effects:
        k = os.path.relpath(e[1], root)
        if e[0] == "CREATE":
            paths[k] = e[2]
            data[e[2]] = b""
        elif e[0] == "TRUNC":
            data[paths[k]] = b""
        elif e[0] == "APPEND":
            data[e[3]] = data.get(e[3], b"") + e[2]
        elif e[0] == "REPLACE":
            paths[os.path.relpath(e[2], root)] = paths.pop(k)
        elif e[0] == "IMPORT":
            paths[k] = e[3]
            data[e[3]] = e[2]
        elif e[0] == "LINK":
            paths[os.path.relpath(e[2], root)] = paths[k]
        elif e[0] in ("UNLINK", "RMDIR"):
            paths.pop(k, None)
        elif e[0] == "MKDIR":
            paths[k] = None
        elif e[0] == "CLOSE":
            pass
        else:
            raise RuntimeError("unknown effect %r" % (e,))
    return {k: (None if ino is None else data.get(ino, b"")) for k, ino in paths.items()}


def crash_states(pre, effects, root, cuts=True):
    """yield (label, model) for every prefix of the log, every APPEND additionally cut at every byte (cuts=False: at 3 bytes)."""
    for i in range(len(effects) + 1):
        yield (f"after {i} of {len(effects)} effects", apply_effects(pre, effects[:i], root))
        if i < len(effects) and effects[i][0] == "APPEND" and not cuts:
            data = effects[i][2]
            for k in sorted({1, len(data) // 2, len(data) - 1} - {0, len(data)}):
                yield (f"effect {i} ({effects[i][0]}) cut at byte {k} of {len(data)}",
                       apply_effects(pre, list(effects[:i]) + [("APPEND", effects[i][1], data[:k], effects[i][3])], root))
            continue
        if i < len(effects) and effects[i][0] == "APPEND":
            data = effects[i][2]
            for k in range(1, len(data)):
                yield (f"effect {i} ({effects[i][0]}) cut at byte {k} of {len(data)}",
                       apply_effects(pre, list(effects[:i]) + [("APPEND", effects[i][1], data[:k], effects[i][3])], root))


def materialize(model, root):
    shutil.rmtree(root, ignore_errors=True)
    os.makedirs(root)
    for k in sorted(model):
        p = os.path.join(root, k)
        if model[k] is None:
            os.makedirs(p, exist_ok=True)
        elif isinstance(model[k], tuple):
            os.makedirs(os.path.dirname(p), exist_ok=True)
            os.symlink(model[k][1], p)
        else:
            os.makedirs(os.path.dirname(p), exist_ok=True)
            with _real_open(p, "wb") as f:
                f.write(model[k])


def describe(effects, root):
    out = []
    for e in effects:
        d = [e[0], os.path.relpath(e[1], root)]
        if e[0] == "APPEND":
            d.append(len(e[2]))
        elif e[0] in ("REPLACE", "LINK"):
            d.append(os.path.relpath(e[2], root))
        out.append(d)
    return out
