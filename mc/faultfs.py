"""E3: file-system effect log of the real write path, and reconstruction of every crash state.

The shim intercepts every effect the write path can issue (builtins.open / io.open in write modes and the returned
object's write/close, os.open/write/close/replace/rename/unlink/remove/mkdir/rmdir/truncate/link), records an ordered
effect log while still performing the effect.  Crash states = every prefix of the log, with every APPEND cut at every
byte boundary, rebuilt on a copy of the pre-state tree: process death exactly (effects are ordered, the OS keeps what
was issued), independent of Python's buffering and exception unwinding.
Completeness of the interception is checked per run by the caller: apply_effects(pre, log) must equal the real tree.
"""
from __future__ import annotations
import builtins, io, os, shutil, errno

LOG: list = []
ROOT = None
FAIL: dict = {}     # path -> exception instance to raise on open (fault injection for reads)
_real_open = builtins.open
_real_io_open = io.open
_real_os = {n: getattr(os, n) for n in ("open", "write", "close", "replace", "rename", "unlink", "remove", "mkdir", "rmdir", "truncate", "link", "symlink")}
FDS: dict = {}


def watched(p):
    try:
        p = os.path.abspath(os.fspath(p))
    except TypeError:
        return False
    return bool(ROOT) and p.startswith(ROOT)


class ShimFile:
    def __init__(self, path, mode, encoding, real):
        enc = getattr(real, "encoding", None) or encoding or "utf-8"   # 'locale' etc. are resolved by the real file object
        self.path, self.mode, self.encoding, self.real, self.closed_ = path, mode, enc, real, False

    def write(self, s):
        b = s if isinstance(s, (bytes, bytearray)) else s.encode(self.encoding)
        LOG.append(("APPEND", self.path, bytes(b)))
        r = self.real.write(s)
        self.real.flush()
        return r

    def writelines(self, lines):
        for l in lines:
            self.write(l)

    def flush(self):
        self.real.flush()

    def close(self):
        if not self.closed_:
            self.closed_ = True
            LOG.append(("CLOSE", self.path))
            self.real.close()

    def __enter__(self):
        return self

    def __exit__(self, *a):
        self.close()

    def __getattr__(self, n):
        return getattr(self.real, n)


def shim_open(file, mode="r", buffering=-1, encoding=None, errors=None, newline=None, closefd=True, opener=None):
    if not isinstance(file, int):
        try:
            ap = os.path.abspath(os.fspath(file))
        except TypeError:
            ap = None
        if ap in FAIL:
            raise FAIL[ap]
    if isinstance(file, int):
        path = FDS.get(file)
        real = _real_open(file, mode, buffering, encoding, errors, newline, closefd, opener)
        if path and any(c in mode for c in "wax+"):
            return ShimFile(path, mode, encoding, real)
        return real
    if watched(file) and any(c in mode for c in "wax+"):
        path = os.path.abspath(os.fspath(file))
        existed = os.path.exists(path)
        if "w" in mode:
            LOG.append(("TRUNC", path) if existed else ("CREATE", path))
        elif not existed:
            LOG.append(("CREATE", path))
        real = _real_open(file, mode, buffering, encoding, errors, newline, closefd, opener)
        return ShimFile(path, mode, encoding, real)
    return _real_open(file, mode, buffering, encoding, errors, newline, closefd, opener)


def shim_os_open(path, flags, mode=0o777, *, dir_fd=None):
    if watched(path):
        p = os.path.abspath(os.fspath(path))
        existed = os.path.exists(p)
        if flags & os.O_CREAT and not existed:
            LOG.append(("CREATE", p))
        elif flags & os.O_TRUNC and existed:
            LOG.append(("TRUNC", p))
        fd = _real_os["open"](path, flags, mode, dir_fd=dir_fd)
        if flags & (os.O_WRONLY | os.O_RDWR):
            FDS[fd] = p
        return fd
    return _real_os["open"](path, flags, mode, dir_fd=dir_fd)


def shim_os_write(fd, data):
    if fd in FDS:
        LOG.append(("APPEND", FDS[fd], bytes(data)))
    return _real_os["write"](fd, data)


def shim_os_close(fd):
    FDS.pop(fd, None)
    return _real_os["close"](fd)


def _mk2(name, tag):
    def f(a, b, *ar, **kw):
        if watched(a) or watched(b):
            LOG.append((tag, os.path.abspath(os.fspath(a)), os.path.abspath(os.fspath(b))))
        return _real_os[name](a, b, *ar, **kw)
    return f


def _mk1(name, tag):
    def f(a, *ar, **kw):
        if watched(a):
            LOG.append((tag, os.path.abspath(os.fspath(a))))
        return _real_os[name](a, *ar, **kw)
    return f


def install(root):
    global ROOT
    ROOT = os.path.abspath(root)
    del LOG[:]
    builtins.open = shim_open
    io.open = shim_open
    os.open, os.write, os.close = shim_os_open, shim_os_write, shim_os_close
    os.replace, os.rename, os.link = _mk2("replace", "REPLACE"), _mk2("rename", "REPLACE"), _mk2("link", "LINK")
    os.unlink, os.remove = _mk1("unlink", "UNLINK"), _mk1("remove", "UNLINK")
    os.mkdir, os.rmdir, os.truncate = _mk1("mkdir", "MKDIR"), _mk1("rmdir", "RMDIR"), _mk1("truncate", "TRUNC")


def uninstall():
    builtins.open = _real_open
    io.open = _real_io_open
    for n, f in _real_os.items():
        setattr(os, n, f)
    FAIL.clear()


def install_read_faults(faults: dict):
    """Only fault injection on open (no effect logging): path -> exception."""
    FAIL.clear()
    FAIL.update({os.path.abspath(k): v for k, v in faults.items()})
    builtins.open = shim_open
    io.open = shim_open


def snapshot(root):
    out = {}
    for d, ds, fs in os.walk(root):
        for x in ds:
            out[os.path.relpath(os.path.join(d, x), root)] = None
        for x in fs:
            with _real_open(os.path.join(d, x), "rb") as f:
                out[os.path.relpath(os.path.join(d, x), root)] = f.read()
    return out


def apply_effects(model, effects, root):
    m = dict(model)
    for e in effects:
        k = os.path.relpath(e[1], root)
        if e[0] in ("CREATE", "TRUNC"):
            m[k] = b""
        elif e[0] == "APPEND":
            m[k] = (m.get(k) or b"") + e[2]
        elif e[0] == "REPLACE":
            m[os.path.relpath(e[2], root)] = m.pop(k)
        elif e[0] == "LINK":
            m[os.path.relpath(e[2], root)] = m[k]
        elif e[0] == "UNLINK":
            m.pop(k, None)
        elif e[0] == "RMDIR":
            m.pop(k, None)
        elif e[0] == "MKDIR":
            m[k] = None
        elif e[0] == "CLOSE":
            pass
        else:
            raise RuntimeError("unknown effect %r" % (e,))
    return m


def crash_states(pre, effects, root):
    """yield (label, model) for every prefix of the log, every APPEND additionally cut at every byte."""
    for i in range(len(effects) + 1):
        yield (f"after {i} of {len(effects)} effects", apply_effects(pre, effects[:i], root))
        if i < len(effects) and effects[i][0] == "APPEND":
            data = effects[i][2]
            for k in range(1, len(data)):
                yield (f"effect {i} ({effects[i][0]}) cut at byte {k} of {len(data)}",
                       apply_effects(pre, list(effects[:i]) + [("APPEND", effects[i][1], data[:k])], root))


def materialize(model, root):
    shutil.rmtree(root, ignore_errors=True)
    os.makedirs(root)
    for k in sorted(model):
        p = os.path.join(root, k)
        if model[k] is None:
            os.makedirs(p, exist_ok=True)
        else:
            os.makedirs(os.path.dirname(p), exist_ok=True)
            with _real_open(p, "wb") as f:
                f.write(model[k])


def describe(effects, root):
    return [(e[0], os.path.relpath(e[1], root)) + ((len(e[2]),) if e[0] == "APPEND" else ((os.path.relpath(e[2], root),) if len(e) > 2 else ())) for e in effects]
