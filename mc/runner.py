"""Driver: plans shards, starts workers, merges results, confirms violations in a fresh process,
applies the known-findings protocol, writes evidence and replay files.  Never imports spil."""
from __future__ import annotations
import os, sys, json, time, subprocess, importlib, collections, shutil, hashlib
from mc import env

EXIT_OK, EXIT_VIOLATION, EXIT_HARNESS = 0, 1, 2
KNOWN = os.path.join(env.VERIF, "known_findings.json")


def load_known(prop: str) -> dict:
    try:
        with open(KNOWN) as f:
            data = json.load(f)
    except FileNotFoundError:
        return {}
    return {e["signature"]: e for e in data.get("findings", []) if e["property"] == prop and e.get("status") == "known"}


def _start(prop, mode, workdir, arg, hashseed, extra_env=None, conf_src=None):
    if conf_src and conf_src.startswith("gen:"):
        # a generated configuration package (C20): rendered from its specification, by name
        from mc import confgen
        gen_dir = os.path.join(workdir, "generated")
        confgen.render(confgen.family("thorough")[conf_src[4:]], gen_dir)
        conf_src = gen_dir
    env.copy_conf(workdir, conf_src)
    inp, outp = os.path.join(workdir, f"{mode}.in.json"), os.path.join(workdir, f"{mode}.out.json")
    with open(inp, "w") as f:
        json.dump(arg, f)
    log = open(os.path.join(workdir, f"{mode}.log"), "w")
    p = subprocess.Popen([env.PY, "-m", "mc.worker", mode, prop, inp, outp], cwd=env.VERIF,
                         env=env.worker_env(workdir, hashseed, extra_env), stdout=log, stderr=subprocess.STDOUT)
    return p, outp, log


def _collect(p, outp, log, what):
    p.wait()
    log.close()
    if not os.path.exists(outp):
        with open(log.name) as f:
            tail = f.read()[-4000:]
        raise HarnessError(f"{what}: worker produced no result (exit {p.returncode})\n{tail}")
    with open(outp) as f:
        res = json.load(f)
    if not res.get("ok"):
        raise HarnessError(f"{what}: worker failed\n{res.get('error')}")
    return res


class HarnessError(Exception):
    pass


def run_workers(prop, mode, scratch, jobs, max_par=16, failures=None):
    """jobs: list of (name, arg, hashseed, extra_env, conf_src). Returns results in order.
    failures: when a list is given, a crashed worker is recorded there (its result is None) and the others keep running:
    a violation another shard finds and a fresh process confirms is still a violation; check() decides what to report."""
    results = [None] * len(jobs)
    running = []
    nxt = 0
    while nxt < len(jobs) or running:
        while nxt < len(jobs) and len(running) < max_par:
            name, arg, hs, extra, conf_src = jobs[nxt]
            wd = os.path.join(scratch, name)
            os.makedirs(wd, exist_ok=True)
            running.append((nxt, name, wd) + _start(prop, mode, wd, arg, hs, extra, conf_src))
            nxt += 1
        still = []
        for (idx, name, wd, p, outp, log) in running:
            if p.poll() is None:
                still.append((idx, name, wd, p, outp, log))
            else:
                try:
                    results[idx] = _collect(p, outp, log, f"{prop}/{name}")
                except HarnessError as e:
                    if failures is not None:
                        failures.append(str(e))
                        shutil.rmtree(wd, ignore_errors=True)
                        continue
                    for (_, _, _, p2, _, l2) in still + [r for r in running if r[3] is not p]:
                        try:
                            p2.kill()
                        except Exception:
                            pass
                    raise
                shutil.rmtree(wd, ignore_errors=True)
        running = still
        if running:
            time.sleep(0.02)
    return results


def _confirm_by_shard(prop, scratch, jobs, v, label="s"):
    if v.get("_shard") is None:
        return False
    name, arg, hs, extra, conf_src = jobs[v["_shard"]]
    res = run_workers(prop, "run", scratch, [(f"{label}{i}-{name}", arg, hs, extra, conf_src) for i in range(2)], 2)
    cases = []
    for r in res:
        cases.append([json.dumps(x["case"], sort_keys=True) for x in r.get("violations", {}).get(v["signature"], [])])
    return bool(cases[0]) and cases[0] == cases[1] and json.dumps(v["case"], sort_keys=True) in cases[0]


def merge(results):
    m = {"evaluations": 0, "distinct": 0, "nontrivial": 0, "classes": collections.Counter(),
         "viol_count": collections.Counter(), "violations": {}, "samples": [], "caps": [], "extra": [],
         "states": 0, "transitions": 0, "traces": 0}
    for r in results:
        for k in ("evaluations", "distinct", "nontrivial", "states", "transitions", "traces"):
            m[k] += r.get(k, 0)
        m["classes"].update(r.get("classes", {}))
        m["viol_count"].update(r.get("viol_count", {}))
        for sig, lst in r.get("violations", {}).items():
            cur = m["violations"].setdefault(sig, [])
            for v in lst:
                if len(cur) < 3:
                    cur.append(v)
        for s in r.get("samples", []):
            if len(m["samples"]) < 10 and not any(x.get("outcome") == s.get("outcome") for x in m["samples"]):
                m["samples"].append(s)
        for c in r.get("caps", []):
            if c not in m["caps"]:
                m["caps"].append(c)
        if r.get("extra"):
            m["extra"].append(r["extra"])
    return m


def check(prop: str, tier: str, seed: int) -> int:
    t0 = time.time()
    mod = importlib.import_module("props." + prop.lower())
    scratch = env.make_scratch(prop.lower())
    try:
        plan = mod.plan(tier, seed)
        jobs = []
        for i, sh in enumerate(plan["shards"]):
            sh = dict(sh, tier=tier, seed=seed)
            jobs.append((f"w{i}", sh, sh.get("hashseed", plan.get("hashseed", 0)), sh.get("env"), sh.get("conf_src")))
        failures = []
        results = run_workers(prop, "run", scratch, jobs, plan.get("max_par", 16), failures)
        if failures and not any(r and r.get("violations") for r in results):
            raise HarnessError(failures[0] + (f"\n(+{len(failures) - 1} more failed workers)" if len(failures) > 1 else ""))
        for ji, r in enumerate(results):
            for lst in (r or {}).get("violations", {}).values():
                for v in lst:
                    v["_shard"] = ji
        results = [r for r in results if r is not None]
        m = merge(results)
        if failures:
            m["caps"].append(f"{len(failures)} worker(s) crashed; their shards are not covered")
        if hasattr(mod, "post"):
            mod.post(m, results, tier, seed)  # cross-shard oracles (may add violations)
        # ---------------------------------------------------------------- confirm in a fresh process, twice
        to_confirm = [lst[0] for sig, lst in sorted(m["violations"].items())]
        confirmed = {}
        if to_confirm and not plan.get("no_confirm"):
            jobs2 = []
            for gi, v in enumerate(to_confirm):
                e = v.get("env") or {}
                for run in "ab":      # every replay in a process of its own, two processes per violation
                    jobs2.append((f"r{gi}{run}", {"violations": [v], "single": True}, e.get("hashseed", plan.get("hashseed", 0)), e.get("env"), e.get("conf_src")))
            reps = run_workers(prop, "replay", scratch, jobs2, 16)
            for ra, rb in zip(reps[0::2], reps[1::2]):
                for rp, rq in zip(ra["replays"], rb["replays"]):
                    a, b = rp["runs"][0], rq["runs"][0]
                    if a != b:
                        raise HarnessError(f"replay of {rp['signature']} is not deterministic: {a} vs {b}")
                    if rp["signature"] not in a:
                        # not a function of the case alone: it may need the calls its shard made before it. A shard is a
                        # deterministic program; re-run it twice from fresh processes - the same signature on the same case
                        # both times is a replayable (if long) history, anything else is harness nondeterminism.
                        v = m["violations"][rp["signature"]][0]
                        if not _confirm_by_shard(prop, scratch, jobs, v):
                            raise HarnessError(f"violation {rp['signature']} did not reproduce in a fresh process (got {a}), "
                                               f"nor by re-running its shard; harness nondeterminism")
                        v["replay_mode"] = "shard"
                        v["shard_job"] = list(jobs[v["_shard"]][1:])
                    confirmed[rp["signature"]] = True
        # ---------------------------------------------------------------- known findings protocol
        known = load_known(prop)
        new = []
        os.makedirs(os.path.join(env.VERIF, "replay"), exist_ok=True)
        for sig in sorted(m["violations"]):
            v = m["violations"][sig][0]
            if sig in known:
                print(f"KNOWN-FINDING: property={prop} {sig}: {known[sig].get('what', '')} "
                      f"[{m['viol_count'][sig]} case(s) this run, e.g. {json.dumps(v['case'])[:160]}]")
            else:
                new.append(sig)
                h = hashlib.sha1(sig.encode()).hexdigest()[:8]
                path = os.path.join(env.VERIF, "replay", f"{prop}-{h}.json")
                with open(path, "w") as f:
                    json.dump({"property": prop, "signature": sig, "count": m["viol_count"][sig],
                               "violation": v, "more": m["violations"][sig][1:]}, f, indent=1)
                print(f"VIOLATION property={prop} replay={path}")
                print(f"  signature: {sig}\n  case: {json.dumps(v['case'])[:300]}\n  observed: {json.dumps(v['observed'])[:300]}"
                      f"\n  expected: {json.dumps(v['expected'])[:300]}\n  count: {m['viol_count'][sig]}")
        # ---------------------------------------------------------------- evidence
        cov = mod.coverage(m, tier, seed) if hasattr(mod, "coverage") else {}
        coverage = {
            "evaluations": m["evaluations"],
            "distinct_nontrivial": m["nontrivial"],
            "distinct_cases": m["distinct"],
            "rule": cov.pop("rule", getattr(mod, "RULE", "")),
            "samples": (m["samples"] or [{"note": "no sample recorded"}])[:8],
            "outcome_classes": dict(m["classes"]),
            "distinct_outcome_classes": len(m["classes"]),
            "caps_hit": m["caps"],
            "exhaustive": bool(cov.pop("exhaustive", True)) and not m["caps"],
            "shards": len(plan["shards"]),
            "violation_signatures": {s: m["viol_count"][s] for s in m["violations"]},
            "known_findings_seen": [s for s in m["violations"] if s in known],
            "violations_confirmed_in_fresh_process": len(confirmed),
        }
        if m["states"]:
            coverage.update(states=m["states"], transitions=m["transitions"], traces_validated_against_impl=m["traces"])
        coverage.update(cov)
        ev = {"property_id": prop, "tier": tier, "seed": seed, "level": mod.LEVEL, "coverage": coverage,
              "assumptions": getattr(mod, "ASSUMPTIONS", []), "wall_s": round(time.time() - t0, 2), "violations": len(new)}
        os.makedirs(os.path.join(env.VERIF, "evidence"), exist_ok=True)
        with open(os.path.join(env.VERIF, "evidence", f"{prop}.json"), "w") as f:
            json.dump(ev, f, indent=1, sort_keys=True)
        for fmsg in failures:
            print("WORKER-FAILED " + fmsg.splitlines()[0] + " :: " + fmsg.strip().splitlines()[-1][:300])
        if failures and not new:
            raise HarnessError(failures[0])
        print(f"{prop} {tier}: evaluations={m['evaluations']} distinct_nontrivial={m['nontrivial']} "
              f"classes={len(m['classes'])} violations={len(new)} known={len(coverage['known_findings_seen'])} "
              f"caps={m['caps']} wall={ev['wall_s']}s")
        return EXIT_VIOLATION if new else EXIT_OK
    finally:
        shutil.rmtree(scratch, ignore_errors=True)


def replay(prop: str, path: str) -> int:
    with open(path) as f:
        art = json.load(f)
    v = art["violation"]
    scratch = env.make_scratch(prop.lower() + "-replay")
    try:
        e = v.get("env") or {}
        if v.get("replay_mode") == "shard":
            name, arg, hs, extra, conf_src = ["w"] + list(v["shard_job"])
            ok = _confirm_by_shard(prop, scratch, [(name, arg, hs, extra, conf_src)], dict(v, _shard=0))
            if ok:
                print(f"VIOLATION property={prop} replay={path}")
                return EXIT_VIOLATION
            print("not reproduced by re-running the shard (property holds on this artefact)")
            return EXIT_OK
        reps = run_workers(prop, "replay", scratch, [(f"r0{x}", {"violations": [v], "single": True}, e.get("hashseed", 0), e.get("env"), e.get("conf_src")) for x in "ab"], 2)
        rp = reps[0]["replays"][0]
        rp["runs"] = [rp["runs"][0], reps[1]["replays"][0]["runs"][0]]
        print(json.dumps(rp, indent=1)[:4000])
        if rp["runs"][0] != rp["runs"][1]:
            print("HARNESS: replay not deterministic")
            return EXIT_HARNESS
        if v["signature"] in rp["runs"][0]:
            print(f"VIOLATION property={prop} replay={path}")
            return EXIT_VIOLATION
        print("not reproduced (property holds on this artefact)")
        return EXIT_OK
    finally:
        shutil.rmtree(scratch, ignore_errors=True)


def main(argv=None):
    import argparse
    ap = argparse.ArgumentParser()
    ap.add_argument("prop")
    ap.add_argument("--tier", default=os.environ.get("VERIF_TIER", "quick"), choices=["quick", "thorough"])
    ap.add_argument("--replay")
    a = ap.parse_args(argv)
    prop = a.prop.upper()
    seed = int(os.environ.get("VERIF_SEED", "0") or 0)
    try:
        if a.replay:
            return replay(prop, a.replay)
        return check(prop, a.tier, seed)
    except HarnessError as e:
        print(f"HARNESS-ERROR property={prop}: {e}")
        return EXIT_HARNESS


if __name__ == "__main__":
    sys.exit(main())
