"""Reference entity store: what exists, and what each kind of Finder must answer for one *typed* search.

Existence:  a path-backed entity exists from the moment it or a descendant was created (its folder/file is there);
            a constants-backed level (C11: "answered from those constants") holds the constant values under every
            parent that exists in its parent source (literal parents are looked up there, searched parents are found there).
The routing of types to sources is configuration *code* (spil_data_conf.get_finder_for); it is described declaratively
here (sources_for_demo) and bound to the code at start by bind_sources().
"""
from __future__ import annotations
import re
from mc.ref.model import Conf, SEP


def ref_glob(pattern: str, entry: str) -> bool:
    ps, es = pattern.split("/"), entry.split("/")
    if len(ps) != len(es):
        return False
    for p, e in zip(ps, es):
        if p == "*":
            continue
        rx = "[^/]*".join(re.escape(x) for x in p.split("*"))
        if not re.fullmatch(rx, e, re.S):
            return False
    return True


def last_of_groups(strings, index):
    """C09: one per distinct combination of the segments before `index`: the entry whose remaining segments are
    greatest when compared segment by segment as strings."""
    best = {}
    for s in strings:
        parts = s.split("/")
        k = tuple(parts[:index])
        if k not in best or parts[index:] > best[k].split("/")[index:]:
            best[k] = s
    return set(best.values())


def sources_for_demo(conf_module):
    """Declarative description of spil_hamlet_conf/spil_data_conf.get_finder_for / get_getter_for."""
    sc = conf_module
    try:
        from mc.ref.confview import load_private
        gen = getattr(load_private("spil_data_conf"), "_verif_sources", None)
        if gen is not None:      # generated configuration packages carry their own routing description
            return {k: dict(v) for k, v in gen.items()}
    except Exception:  # noqa
        pass
    return {
        "project": {"kind": "constants", "key": "project", "values": list(sc.projects), "parent": None},
        "asset": {"kind": "constants", "key": "type", "values": ["a", "s"], "parent": "project"},
        "shot": {"kind": "constants", "key": "type", "values": ["a", "s"], "parent": "project"},
        "asset__assettype": {"kind": "constants", "key": "assettype", "values": list(sc.asset_types), "parent": "asset"},
        "asset__state": {"kind": "constants", "key": "state", "values": ["w", "p"], "parent": "paths"},
        "shot__state": {"kind": "constants", "key": "state", "values": ["w", "p"], "parent": "paths"},
    }


def bind_sources(sources, ref: Conf):
    """Probe the routing code for one Sid per type and compare class, key, values, parent with the description."""
    from spil import conf, Sid, FindInConstants, FindInPaths
    from mc import universe
    conc = universe.one_per_type(ref)
    errs = []
    for typ, s in conc.items():
        f = conf.get_finder_for(Sid(typ + ":" + s))
        d = sources.get(typ)
        if d is None:
            if not isinstance(f, FindInPaths):
                errs.append(f"{typ}: routed to {type(f).__name__}, description says paths")
        else:
            if not isinstance(f, FindInConstants) or f.key != d["key"] or list(f.values) != d["values"]:
                errs.append(f"{typ}: routing code and description differ: {f}")
            else:
                ps = f.parent_source
                want = d["parent"]
                if want is None and ps is not None or want == "paths" and not isinstance(ps, FindInPaths) or \
                        want not in (None, "paths") and not (isinstance(ps, FindInConstants) and ps.key == sources[want]["key"]):
                    errs.append(f"{typ}: parent source differs from description")
    return errs


class Store:
    def __init__(self, ref: Conf, pr, entities, sources=None):
        """entities: created concrete Sid strings (naturally typed). pr: PathsRef of the configuration holding them."""
        self.ref, self.pr = ref, pr
        self.sources = sources or {}
        self.created = list(entities)
        self.paths = set()       # strings of path-backed existing entities
        self.bytype = {}
        for e in entities:
            self._add(e)

    def _add(self, e):
        parts = e.split("/")
        t0 = self.ref.natural(e)[0]
        if not t0 or not self.pr.has_path(t0):
            return
        full = self.pr.render(t0, self.ref.natural(e)[1])
        for i in range(1, len(parts) + 1):
            p = "/".join(parts[:i])
            t, d = self.ref.natural(p)
            if t and self.pr.has_path(t) and p not in self.paths:
                pp = self.pr.render(t, d)
                # an ancestor exists because its folder is on the way to the entity's path (a Sid prefix whose
                # path is somewhere else, e.g. '.../w/abc' above the node file '.../w/abc/abc', does not)
                if pp == full or full.startswith(pp.rstrip("/") + "/"):
                    self.paths.add(p)
                    self.bytype.setdefault(t, set()).add(p)

    def add(self, e):
        self.created.append(e)
        self._add(e)

    # ------------------------------------------------------------------ one typed search, '>' already read as '*'
    def star_paths(self, typ, st):
        return {e for e in self.bytype.get(typ, ()) if ref_glob(st, e)}

    def star_list(self, L, st):
        return {e for e in L if ref_glob(st, e)}

    def star_all(self, typ, st):
        src = self.sources.get(typ)
        if src is None:
            return self.star_paths(typ, st)
        keys = self.ref.keys(typ)
        K = src["key"]
        if K not in keys:
            return set()
        i = keys.index(K)
        segs = st.split("/")
        root = segs[: i + 1]
        rtyp = self._type_of(root)
        if rtyp is None:
            return set()
        rs = "/".join(root)
        parent = root[:-1]
        if "*" not in rs:
            # a constants-backed entity exists under a literal parent iff the parent exists in the parent source
            if src["parent"] is None or not parent:
                return {rs}
            return {rs} if self._exists_in(src["parent"], "/".join(parent)) else set()
        if "*" in "/".join(parent) and parent:
            found = self.find_all("/".join(parent))
            out = set()
            for fr in found:
                if root[-1] != "*":
                    cand = fr + "/" + root[-1]
                    if self.ref.natural(cand)[0]:
                        out.add(cand)
                else:
                    out |= self._append(fr, src, rtyp)
            return out
        if parent and src["parent"] is not None and not self._exists_in(src["parent"], "/".join(parent)):
            return set()
        return self._append("/".join(parent), src, rtyp)

    def _exists_in(self, source_name, s):
        t = self.ref.natural(s)[0]
        if not t:
            return False
        if source_name == "paths":
            return s in self.bytype.get(t, ())
        return s in self.star_all(t, s)

    def _type_of(self, segs):
        t, _ = self.ref.natural("/".join(segs))
        return t

    def _append(self, parent, src, typ):
        out = set()
        for v in src["values"]:
            cand = (parent + "/" + v) if parent else v
            # get_with(key=K, value=v) on the parent: typed by the key set -> must be accepted by some template
            if self.ref.natural(cand)[0]:
                out.add(cand)
        return out

    # ------------------------------------------------------------------ whole expressions (unfolded by spil: C07 owns that)
    def find_all(self, search):
        from spil.sid.read.tools import unfold_search
        return self.do_find("all", [(u.type, u.string) for u in unfold_search(search)])[0]

    def do_find(self, kind, typed, L=None):
        """typed: list of (type, string) as produced by unfold_search. kind in paths/list/all."""
        def star(t, st):
            if kind == "paths":
                return self.star_paths(t, st)
            if kind == "list":
                return self.star_list(L, st)
            return self.star_all(t, st)
        if not typed:
            return set(), True
        if any(">" in st.split("/") for _, st in typed):
            idx = [st.split("/").index(">") for _, st in typed if ">" in st.split("/")]
            found = set()
            for t, st in typed:
                found |= star(t, "/".join("*" if x == ">" else x for x in st.split("/")))
            return last_of_groups(found, idx[0]), (len(set(idx)) == 1)
        out = set()
        for t, st in typed:
            out |= star(t, st)
        return out, True

    # ------------------------------------------------------------------ corresponding lists
    def list_for_paths(self):
        return sorted(self.paths)

    def exists_all(self, s):
        """FindInAll's notion of existence for a concrete Sid string."""
        t = self.ref.natural(s)[0]
        if not t:
            return False
        r, _ = self.do_find("all", [(t, s)])
        return s in r
