"""Reference denotation of a search expression, worded after C07.  Pure strings; never imports spil."""
from __future__ import annotations
import itertools
from mc.ref.model import Conf, SEP


class SpilExc(Exception):
    """The search is one of the two malformed shapes for which SpilException is the stated outcome."""


def expand_alias(ref: Conf, seg: str) -> list[str]:
    alts = [x.strip() for x in seg.split(",")] if "," in seg else [seg]
    out = []
    for a in alts:
        out.extend(ref.alias.get(a, [a]))
    return sorted(set(out))


def split_query(s: str):
    if "?" in s:
        p, q = s.split("?", 1)
        return p, q
    return s, ""


def alternatives(ref: Conf, s: str, leaf_filter_keys=None):
    """Steps 1+2: alias expansion (last segment, leaf-key filter) and distribution of ','. -> list of (path, query)."""
    path, q = split_query(s)
    segs = path.split("/")
    last_alts = expand_alias(ref, segs[-1]) if segs[-1] else [""]
    qd = ref.qdict(q) if q else {}
    qd = {k.replace(" ", ""): v.replace(" ", "") for k, v in qd.items()}     # blanks in a filter are dropped (keys and values)
    if leaf_filter_keys is None:
        leaf_filter_keys = set(v for v in ref.leaf_keys.values() if v)
    for lk in leaf_filter_keys:
        if qd.get(lk):
            qd[lk] = ",".join(expand_alias(ref, qd[lk]))
    seg_alts = [[x.strip() for x in sg.split(",")] if "," in sg else [sg] for sg in segs[:-1]] + [last_alts]
    q_alts = [[(k, x.replace(" ", "")) for x in v.split(",")] if "," in v else [(k, v.replace(" ", ""))] for k, v in qd.items()]
    out = []
    for combo in itertools.product(*seg_alts):
        p = "/".join(combo)
        for qc in itertools.product(*q_alts):
            qs = "&".join(f"{k}={v}" for k, v in qc)
            if (p, qs) not in out:
                out.append((p, qs))
    return out


def typed_searches(ref: Conf, p: str):
    """Steps 3+4 for one comma-free path: list of (type, fields, string)."""
    typed = []
    n2 = p.count("/**")
    if n2 > 1:
        raise SpilExc("more than one **")
    if n2 == 1:
        root = p.split("/**")[0]
        t, _ = ref.natural(root)
        if not t:
            raise SpilExc("untypable root before **")
        leaf = ref.leaf_keys.get(ref.basetype(t))
        seen = set()
        for n in range(0, ref.maxlen + 1):
            cand = p.replace("/**", "/*" * n)
            for typ, d in ref.all_types(cand).items():
                if list(d)[-1] == leaf and (typ, cand) not in seen:
                    seen.add((typ, cand))
                    typed.append((typ, d, cand))
    else:
        for typ, d in ref.all_types(p).items():
            typed.append((typ, d, p))
    return typed


def denote(ref: Conf, s: str):
    """-> (required:set of uri, allowed:set of uri); raises SpilExc for the two malformed shapes."""
    required, allowed = set(), set()
    del GROUPS[:]
    for p, q in alternatives(ref, s):
        r, a = denote_one(ref, p, q)
        required |= r
        allowed |= a
    return required, allowed | required


GROUPS: list = []     # side channel of the last denote(): sets of uris of which at least one must be in the result


def _apply(ref, typ, d, st, q):
    """query application on one typed search -> (required list, allowed list) of (type, fields)."""
    res = ref.query_outcomes(typ, d, st, q)
    ov = ref.overlay(d, q)
    applied = [(x[1], ref.ordered(x[1], ov)) for x in res if x[0] == "applied"]
    return (applied if len(res) == 1 else []), applied


def denote_one(ref: Conf, p: str, q: str):
    required, allowed = set(), set()
    ts = typed_searches(ref, p)
    if p == "" and q:
        ts = [(None, {}, "")]  # '?k=v' alone: the documented way to build a Sid from a query (empty string + query)
    for typ, d, st in ts:
        if q:
            req, alw = _apply(ref, typ, d, st, q)
        elif typ is None:
            continue
        else:
            req = alw = [(typ, d)]
        if alw and not req:
            # the filter fits several types (none the current one): which one is taken is open, dropping the search is not
            grp = set()
            for ty, dd in alw:
                nq = ref.narrow.get(ref.basetype(ty), "")
                if nq:
                    for t3, d3 in _apply(ref, ty, dd, ref.canonical(ty, dd), nq)[1]:
                        grp.add(t3 + ":" + ref.canonical(t3, d3))
                else:
                    grp.add(ty + ":" + ref.canonical(ty, dd))
            if grp and ref.is_search_text(st + "?" + q):
                GROUPS.append(grp)
        for lst, target in ((req, required), (alw, allowed)):
            for ty, dd in lst:
                nq = ref.narrow.get(ref.basetype(ty), "")
                if nq:
                    st2 = ref.canonical(ty, dd)
                    r2, a2 = _apply(ref, ty, dd, st2, nq)
                    use = r2 if target is required else a2
                    for t3, d3 in use:
                        target.add(t3 + ":" + ref.canonical(t3, d3))
                else:
                    target.add(ty + ":" + ref.canonical(ty, dd))
    return required, allowed


def prefix_closure(strings):
    out = set()
    for s in strings:
        parts = s.split("/")
        for i in range(1, len(parts) + 1):
            out.add("/".join(parts[:i]))
    return out


def extrapolation_candidates(ref: Conf, s: str):
    """Every comma/alias alternative of s with '**' filled by 0..maxlen '*' (as segment lists)."""
    out = []
    for p, _ in alternatives(ref, s):
        if p.count("/**") == 1:
            for n in range(0, ref.maxlen + 1):
                out.append(p.replace("/**", "/*" * n).split("/"))
        else:
            out.append(p.split("/"))
    return out


def is_prefix_of_alternative(ref: Conf, r: str, cands) -> bool:
    """r (a result string of do_extrapolate=True) is a '/'-prefix of some alternative, modulo narrowed keys."""
    rs = r.split("/")
    t, d = ref.natural(r)
    nkeys = set()
    for nq in ref.narrow.values():
        nkeys |= set(ref.qdict(nq))
    keys = ref.keys(t) if t else []
    for c in cands:
        if len(c) < len(rs):
            continue
        if all(rs[i] == c[i] or (i < len(keys) and keys[i] in nkeys) for i in range(len(rs))):
            return True
    return False


def denoted_typed(ref: Conf, s: str, impl_typed):
    """The typed searches an expression stands for, as [(type, string)]: the reference unfolding wherever it is unambiguous
    (required == allowed, no open choice), in the implementation's order; otherwise what the implementation unfolded to
    (C07 judges that against the allowed set)."""
    try:
        req, alw = denote(ref, s)
    except SpilExc:
        return list(impl_typed)
    if req != alw or GROUPS or {t + ":" + st for t, st in impl_typed} == req:
        return list(impl_typed)
    order = {t + ":" + st: i for i, (t, st) in enumerate(impl_typed)}
    return [tuple(u.split(":", 1)) for u in sorted(req, key=lambda u: (order.get(u, len(order)), u))]
