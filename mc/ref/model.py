"""Reference models: templates, typing, query overlay, canonical strings, vocabulary.

Deliberately *not* built on resolva or on any spil function.  Reads the raw configuration modules the way a
configuration author writes them (spil_sid_conf.*), and implements the statements of C01-C04, C07, C19.
"""
from __future__ import annotations
import re, importlib, itertools
from urllib.parse import parse_qsl

SEP = "__"
SEARCH_SYMBOLS = ["*", ",", ">", "<", "**"]
DEFAULT_PAT = r"[^/]*"


# --------------------------------------------------------------------------------------------- templates
def split_template(t: str) -> list[str]:
    """Split a template on '/' outside of braces."""
    out, depth, cur = [], 0, ""
    for ch in t:
        if ch == "{":
            depth += 1
        elif ch == "}":
            depth -= 1
        if ch == "/" and depth == 0:
            out.append(cur)
            cur = ""
        else:
            cur += ch
    out.append(cur)
    return out


_PH = re.compile(r"\{([^:{}]+)(?::((?:\\\}|[^}])*))?\}", re.S)


def parse_part(part: str):
    """'{key}' or '{key:pattern}' -> (key, pattern|None).  Raises on anything else."""
    m = _PH.fullmatch(part)
    if not m:
        raise ValueError(f"not a placeholder: {part!r}")
    pat = m.group(2)
    if pat is not None:
        pat = pat.replace("\\{", "{").replace("\\}", "}")
    return m.group(1), pat


def parse_template(t: str):
    return [parse_part(p) for p in split_template(t)]


def part_key(part: str) -> str:
    return part.split(":")[0].replace("{", "").replace("}", "")


def ref_extrapolate(templates: dict, to_extrapolate, sep: str = SEP) -> dict:
    """C19 statement: keep every explicit type with template and relative order; directly after each extrapolated
    type, longest to shortest, one type per '/'-prefix of its template that no other type (explicit or already
    generated) owns, named basetype + sep + last key of the prefix; skipped if that name is taken."""
    new: dict = {}
    for typ, tpl in templates.items():
        new[typ] = tpl
        if typ in to_extrapolate:
            base = typ.split(sep)[0]
            parts = tpl.split("/")
            for n in range(len(parts) - 1, 0, -1):
                prefix = "/".join(parts[:n])
                name = base + sep + part_key(parts[n - 1])
                if prefix in templates.values() or prefix in new.values():
                    continue
                if name in templates or name in new:
                    continue
                new[name] = prefix
    return new


def ref_inject(templates: dict, key_patterns: dict) -> dict:
    """pattern_replacing: for every type, for every selector that is a substring of the type name (in selector
    order), apply its find -> replace pairs in order."""
    out = {}
    for typ, tpl in templates.items():
        for sel, repl in key_patterns.items():
            if sel in typ:
                for a, b in repl.items():
                    tpl = tpl.replace(a, b)
        out[typ] = tpl
    return out


# --------------------------------------------------------------------------------------------- configuration view
class Conf:
    """Sid-side configuration view."""

    def __init__(self, module_name: str = "spil_sid_conf"):
        from mc.ref.confview import load_private
        sc = load_private(module_name)
        self.sc = sc
        self.raw_templates = dict(sc.sid_templates)
        t = ref_extrapolate(dict(sc.sid_templates), list(sc.to_extrapolate))
        self.key_patterns = sc.key_patterns
        t = ref_inject(t, sc.key_patterns)
        self.template_text = t
        self.templates = {k: parse_template(v) for k, v in t.items()}  # ordered: type -> [(key, pattern)]
        self._rx = {k: [re.compile(p if p is not None else DEFAULT_PAT) for _, p in v] for k, v in self.templates.items()}
        self.keysets = {k: frozenset(x for x, _ in v) for k, v in self.templates.items()}
        self.leaf_keys = dict(sc.leaf_keys)
        self.alias = dict(getattr(sc, "extension_alias", {}))
        self.narrow = dict(getattr(sc, "basetyped_search_narrowing", {}))
        self.key_types = dict(sc.key_types)
        self.types = list(self.templates)
        self.maxlen = max(len(v) for v in self.templates.values())
        self.bylen: dict[int, list[str]] = {}
        for k, v in self.templates.items():
            self.bylen.setdefault(len(v), []).append(k)

    # ------------------------------------------------------------------ typing (C01)
    def accepts(self, typ: str, segs: list[str]):
        tpl = self.templates.get(typ)
        if tpl is None or len(tpl) != len(segs):
            return None
        rx = self._rx[typ]
        d = {}
        for i, s in enumerate(segs):
            if not rx[i].fullmatch(s):
                return None
            d[tpl[i][0]] = s
        return d

    def natural(self, s: str):
        if s == "":
            return None, None
        segs = s.split("/")
        for typ in self.bylen.get(len(segs), ()):
            d = self.accepts(typ, segs)
            if d is not None:
                return typ, d
        return None, None

    def all_types(self, s: str) -> dict:
        if s == "":
            return {}
        segs = s.split("/")
        r = {}
        for typ in self.bylen.get(len(segs), ()):
            d = self.accepts(typ, segs)
            if d is not None:
                r[typ] = d
        return r

    def forced(self, s: str, typ: str):
        if s == "" or typ not in self.templates:
            return None
        return self.accepts(typ, s.split("/"))

    def fits(self, d: dict) -> list[str]:
        """Types whose key set equals d's and whose patterns accept the values (configuration order)."""
        r = []
        ks = frozenset(d)
        for typ, tpl in self.templates.items():
            if self.keysets[typ] != ks:
                continue
            segs = [d[k] for k, _ in tpl]
            if any((not isinstance(x, str)) or "/" in x for x in segs):
                continue
            if self.accepts(typ, segs) is not None:
                r.append(typ)
        return r

    def canonical(self, typ: str, d: dict) -> str:
        return "/".join(d[k] for k, _ in self.templates[typ])

    def ordered(self, typ: str, d: dict) -> dict:
        return {k: d[k] for k, _ in self.templates[typ]}

    def keys(self, typ: str) -> list[str]:
        return [k for k, _ in self.templates[typ]]

    def basetype(self, typ: str) -> str:
        return typ.split(SEP)[0]

    def is_leaf_type(self, typ: str) -> bool:
        return self.keys(typ)[-1] == self.leaf_keys.get(self.basetype(typ))

    # ------------------------------------------------------------------ query (C04)
    @staticmethod
    def qdict(q: str) -> dict:
        q = q.replace("?", "&")
        if q.startswith("&"):
            q = q[1:]
        if q.endswith("&"):
            q = q[:-1]
        return dict(parse_qsl(q))

    def overlay(self, fields, q: str) -> dict:
        d = dict(fields or {})
        for k, v in self.qdict(q).items():
            opt = v.startswith("~")
            if opt:
                v = v.replace("~", "")
            if k in d or not opt:
                d[k] = v
        return d

    @staticmethod
    def is_search_text(text: str) -> bool:
        return any(s in text for s in SEARCH_SYMBOLS)

    def query_outcomes(self, typ, fields, string, q):
        """Allowed outcomes of applying q: set of ('applied', type) / ('refused',)."""
        ov = self.overlay(fields, q)
        F = self.fits(ov)
        if not F:
            return {("refused",)}
        if len(F) == 1:
            return {("applied", F[0])}
        search = self.is_search_text(string + "?" + q)
        if typ in F:
            # statement: "(or several types for a non-search Sid) leaves ... untouched" is allowed, keeping the
            # current type is what "typed by the key set" gives when the current type fits.
            return {("applied", typ)} | (set() if search else {("refused",)})
        if search:
            return {("applied", t) for t in F}
        return {("refused",)} | {("applied", t) for t in F}

    # ------------------------------------------------------------------ vocabulary
    def pattern_at(self, typ: str, i: int):
        return self.templates[typ][i][1]

    def literals(self) -> list[str]:
        """Every literal alternative mentioned by any pattern of the configuration (closed vocabularies)."""
        out = []
        for tpl in self.templates.values():
            for _, p in tpl:
                if p is None:
                    continue
                for alt in _top_alts(p):
                    if alt in ("\\*", "\\>"):
                        continue
                    if re.fullmatch(r"[A-Za-z0-9_\-]+", alt) and alt not in out:
                        out.append(alt)
        return out

    def digit_instances(self) -> list[str]:
        out = []
        for tpl in self.templates.values():
            for _, p in tpl:
                if p is None:
                    continue
                for alt in _top_alts(p):
                    if "\\d" not in alt:
                        continue
                    if re.fullmatch(r"(?:[A-Za-z_]|\\d)+", alt):
                        n = alt.count("\\d")
                        for num in _digit_menu(n):
                            it = iter(num)
                            s = re.sub(r"\\d", lambda m: next(it), alt)
                            if s not in out:
                                out.append(s)
                    else:
                        # quantified digit patterns (v\d\d\d\d?, v\d{3,4} ...): literal prefix + digit runs that the pattern accepts
                        prefix = re.match(r"[A-Za-z_]*", alt).group(0)
                        try:
                            rx = re.compile(alt)
                        except re.error:
                            continue
                        for n in range(1, 7):
                            for num in _digit_menu(n):
                                s = prefix + num
                                if rx.fullmatch(s) and s not in out:
                                    out.append(s)
        return out

    def accepted(self, typ: str, i: int, pool) -> list[str]:
        rx = self._rx[typ][i]
        return [c for c in pool if rx.fullmatch(c)]


def _digit_menu(n: int):
    hi = 10 ** n - 1
    vals = [0, 1, 2, 10, hi - 1, hi]
    seen = []
    for v in vals:
        if 0 <= v <= hi:
            s = str(v).zfill(n)
            if s not in seen:
                seen.append(s)
    return seen


def _top_alts(p: str) -> list[str]:
    """Alternatives of a pattern of the form '(a|b|c)' or 'a|b'; otherwise [p]."""
    if p.startswith("(") and p.endswith(")"):
        depth = 0
        ok = True
        for i, ch in enumerate(p):
            if ch == "(" and (i == 0 or p[i - 1] != "\\"):
                depth += 1
            elif ch == ")" and p[i - 1] != "\\":
                depth -= 1
                if depth == 0 and i != len(p) - 1:
                    ok = False
                    break
        if ok:
            p = p[1:-1]
    out, depth, cur = [], 0, ""
    i = 0
    while i < len(p):
        ch = p[i]
        if ch == "\\" and i + 1 < len(p):
            cur += p[i:i + 2]
            i += 2
            continue
        if ch == "(":
            depth += 1
        elif ch == ")":
            depth -= 1
        if ch == "|" and depth == 0:
            out.append(cur)
            cur = ""
        else:
            cur += ch
        i += 1
    out.append(cur)
    return out
