"""Private, side-effect free loading of the raw configuration modules.

The demo configuration modules mutate each other at import (spil_fs_conf updates spil_sid_conf.key_patterns['__'] in
place).  The reference models must see what the configuration *author wrote*, independent of what spil has imported so
far, and must not change spil's own import order.  So every configuration file is executed as a private module object,
with its configuration imports resolved to other private copies, and sys.modules is left exactly as it was.
"""
from __future__ import annotations
import sys, os, types, importlib.util

_CONF_PREFIXES = ("spil_",)
_private: dict[str, types.ModuleType] = {}


def _find(name: str) -> str:
    for d in sys.path:
        p = os.path.join(d or ".", name + ".py")
        if os.path.isfile(p):
            return p
    raise ModuleNotFoundError(name)


def load_private(name: str, nested: bool = False) -> types.ModuleType:
    """Top-level calls are cached; nested configuration imports always get a fresh copy, so that a module that
    mutates what it imports (spil_fs_conf -> spil_sid_conf.key_patterns) never touches the copy another reader uses."""
    if not nested and name in _private:
        return _private[name]
    path = _find(name)
    with open(path) as f:
        src = f.read()
    mod = types.ModuleType(name)
    mod.__file__ = path
    saved = {k: v for k, v in sys.modules.items() if k.startswith(_CONF_PREFIXES) and not k.startswith("spil.")}
    import builtins
    real_import = builtins.__import__

    def imp(n, globals=None, locals=None, fromlist=(), level=0):
        if level == 0 and n.startswith(_CONF_PREFIXES) and "." not in n and n != "spil":
            try:
                _find(n)
            except ModuleNotFoundError:
                return real_import(n, globals, locals, fromlist, level)
            return load_private(n, nested=True)
        return real_import(n, globals, locals, fromlist, level)

    builtins.__import__ = imp
    try:
        exec(compile(src, path, "exec"), mod.__dict__)
    finally:
        builtins.__import__ = real_import
        for k in [k for k in sys.modules if k.startswith(_CONF_PREFIXES) and not k.startswith("spil.") and k not in saved]:
            del sys.modules[k]
        sys.modules.update(saved)
    if not nested:
        _private[name] = mod
    return mod
