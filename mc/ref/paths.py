"""Reference path rendering: a field dictionary through the raw path template of its type, with the inverse value
mapping and the defaults of the path configuration.  Reads the raw configuration modules privately."""
from __future__ import annotations
import re
from mc.ref.confview import load_private

_PH = re.compile(r"\{([^:{}]+)(?::((?:\\\}|[^}])*))?\}", re.S)


class PathsRef:
    def __init__(self, config: str | None = None):
        dc = load_private("spil_data_conf")
        self.data_conf = dc
        self.configs = dict(dc.path_configs)
        self.default = dc.default_path_config or list(self.configs)[0]
        self.name = config or self.default
        mod = load_private(self.configs[self.name])
        self.mod = mod
        self.templates = dict(mod.path_templates)
        self.mapping = dict(getattr(mod, "path_mapping", {}))
        self.defaults = dict(getattr(mod, "path_defaults", {}))
        self.parsed = {t: self._parse(v) for t, v in self.templates.items()}
        # the patterns the path configuration itself puts on its keys (its own pattern table applied to its templates): a Sid
        # whose value has no spelling that this configuration accepts has no path there
        self.own_patterns = {}
        kp = getattr(mod, "key_patterns", None)
        if isinstance(kp, dict):
            from mc.ref.model import ref_inject
            try:
                inj = ref_inject(self.templates, kp)
                self.own_patterns = {t: {p[1]: p[2] for p in self._parse(v) if p[0] == "key" and p[2]} for t, v in inj.items()}
            except Exception:  # noqa
                self.own_patterns = {}

    @staticmethod
    def _parse(t: str):
        """-> list of ('lit', text) | ('key', name, pattern)"""
        out, pos = [], 0
        for m in _PH.finditer(t):
            if m.start() > pos:
                out.append(("lit", t[pos:m.start()]))
            out.append(("key", m.group(1), m.group(2)))
            pos = m.end()
        if pos < len(t):
            out.append(("lit", t[pos:]))
        return out

    def has_path(self, typ: str) -> bool:
        return typ in self.templates

    def keys(self, typ: str):
        return [p[1] for p in self.parsed[typ] if p[0] == "key"]

    def to_path_value(self, key: str, value: str, typ: str | None = None) -> str:
        if not value and self.defaults.get(key):
            value = self.defaults[key]
        m = self.mapping.get(key)
        if value and m:
            for pv, sv in m.items():
                if sv == value:
                    return pv
        return value

    def render(self, typ: str, fields: dict) -> str | None:
        if typ not in self.parsed:
            return None
        out = []
        for p in self.parsed[typ]:
            if p[0] == "lit":
                out.append(p[1])
            else:
                k = p[1]
                if k not in fields:
                    if self.defaults.get(k):
                        out.append(self.defaults[k])
                        continue
                    return None
                pv = self.to_path_value(k, fields[k], typ)
                pat = self.own_patterns.get(typ, {}).get(k)
                if pat and isinstance(pv, str):
                    import re
                    try:
                        if not re.fullmatch(pat, pv):
                            return None
                    except re.error:
                        pass
                out.append(pv)
        return "".join(out)

    def root(self) -> str:
        """Longest common literal prefix of all templates (the configured root), up to a '/'."""
        firsts = [p[0][1] for p in self.parsed.values() if p and p[0][0] == "lit"]
        if not firsts:
            return ""
        pre = firsts[0]
        for f in firsts[1:]:
            while not f.startswith(pre):
                pre = pre[:-1]
        return pre[: pre.rfind("/") + 1] if not pre.endswith("/") else pre

    def sidecar(self, path: str) -> str:
        """The statement of C15 scopes interference by 'path without its final extension'; the configuration's own
        get_data_json_path is used for the location."""
        from pathlib import Path
        return str(self.data_conf.get_data_json_path(Path(path)))
