"""Worker-side recorder: counts cases, distinct non-trivial cases, outcome classes, violations, samples."""
from __future__ import annotations
import zlib, collections, time, json

MAX_PER_SIG = 3


def crc(key: str) -> int:
    return zlib.crc32(key.encode("utf-8", "surrogatepass"))


class Recorder:
    def __init__(self, shard_index: int = 0, shard_count: int = 1, seed: int = 0, budget_s: float | None = None):
        self.i, self.n, self.seed = shard_index, shard_count, seed
        self.seen: set[int] = set()
        self.evaluations = 0
        self.distinct = 0
        self.nontrivial = 0
        self.classes: collections.Counter = collections.Counter()
        self.viol_count: collections.Counter = collections.Counter()
        self.violations: dict[str, list] = {}
        self.samples: list = []
        self._sample_slots = 4
        self.t0 = time.time()
        self.budget_s = budget_s
        self.caps: list[str] = []
        self.extra: dict = {}
        self.states = 0
        self.transitions = 0
        self.traces = 0

    # ------------------------------------------------------------------ sharding by content hash
    def mine(self, key: str) -> bool:
        """True iff this case belongs to this shard and was not seen before (exact global de-duplication:
        equal keys always land in the same shard)."""
        h = zlib.crc32(key.encode("utf-8", "surrogatepass"))
        if h % self.n != self.i:
            return False
        h2 = hash(key)
        if h2 in self.seen:
            return False
        self.seen.add(h2)
        return True

    def out_of_time(self) -> bool:
        return self.budget_s is not None and (time.time() - self.t0) > self.budget_s

    def cap(self, what: str):
        if what not in self.caps:
            self.caps.append(what)

    # ------------------------------------------------------------------ accounting
    def case(self, outcome: str, nontrivial: bool = True, sample=None):
        self.evaluations += 1
        self.distinct += 1
        if nontrivial:
            self.nontrivial += 1
        self.classes[outcome] += 1
        if sample is not None and self.classes[outcome] <= 1 and len(self.samples) < 12:
            self.samples.append({"outcome": outcome, "case": sample})

    def count(self, outcome: str, n: int = 1):
        self.classes[outcome] += n

    def violation(self, signature: str, kind: str, case, observed=None, expected=None, note: str = ""):
        self.viol_count[signature] += 1
        lst = self.violations.setdefault(signature, [])
        if len(lst) < MAX_PER_SIG:
            lst.append({"signature": signature, "kind": kind, "case": case,
                        "observed": _j(observed), "expected": _j(expected), "note": note})

    def result(self) -> dict:
        return {
            "evaluations": self.evaluations, "distinct": self.distinct, "nontrivial": self.nontrivial,
            "classes": dict(self.classes), "viol_count": dict(self.viol_count), "violations": self.violations,
            "samples": self.samples, "caps": self.caps, "extra": self.extra, "wall_s": round(time.time() - self.t0, 2),
            "states": self.states, "transitions": self.transitions, "traces": self.traces,
        }


def _j(x):
    try:
        json.dumps(x)
        return x
    except Exception:
        return repr(x)
