"""Search-expression families (C07, reused by C08-C12, C16): bases and edit menus derived from the configuration."""
from __future__ import annotations
import itertools
from mc import universe


def bases(ref, rep=0):
    """One concrete Sid per type, as (type, segs)."""
    return [(t, s.split("/")) for t, s in universe.one_per_type(ref, rep).items()]


def key_values(ref, typ, i):
    pool = ref.literals() + ref.digit_instances() + universe.NAMES
    p = ref.templates[typ][i][1]
    if p is None:
        return list(universe.NAMES)
    return [v for v in ref.accepted(typ, i, pool) if v not in ("*", ">")]


def segment_edits(ref, typ, segs, with_last=True, with_dstar=True):
    """-> list of edits; an edit is ('seg', i, value) | ('dstar', i, j)."""
    n = len(segs)
    out = []
    for i in range(n):
        out.append(("seg", i, "*"))
        if with_last:
            out.append(("seg", i, ">"))
        vals = [v for v in key_values(ref, typ, i) if v != segs[i] and v not in ref.alias]
        other = vals[0] if vals else segs[i] + "2"
        out.append(("seg", i, segs[i] + "," + other))
        out.append(("seg", i, segs[i] + ", " + other))       # the documented spelling with a blank after the comma
        out.append(("seg", i, segs[i] + ",bogus"))
        out.append(("seg", i, "bogus,zz8"))                  # two alternatives that cannot be typed
        out.append(("seg", i, segs[i] + ",*"))               # overlapping alternatives: results must still be unique
        rare = (vals[-1] if vals else "zz9") if ref.templates[typ][i][1] is not None else "zz9"
        if rare != other:
            out.append(("seg", i, segs[i] + "," + rare))     # a valid value that is unlikely to exist in a universe
            out.append(("seg", i, rare + "," + segs[i]))
        out.append(("seg", i, segs[i][:1] + "*," + other))
        if ref.templates[typ][i][1] is None:
            # a star glued to literal text in a free-text position; the run it stands for may be empty ('ab*' matches 'ab')
            out.append(("seg", i, segs[i] + ","))        # an empty alternative (the empty value is legal in a free-text position)
            out.append(("seg", i, "," + segs[i]))
            out.append(("seg", i, segs[i] + "*"))
            out.append(("seg", i, "*" + segs[i]))
            out.append(("seg", i, segs[i][:1] + "*" + segs[i][1:]))
            # the other names of the generated universes as literal values: names with characters that mean something to a
            # pattern language ('.', '+', '-') next to twins that differ only there
            from mc import datagen
            for nm in datagen.PREFIX_NAMES:
                if nm != segs[i]:
                    out.append(("seg", i, nm))
    for a in ref.alias:
        out.append(("seg", n - 1, a))
    if ref.alias:
        a0 = sorted(ref.alias)[0]
        out.append(("seg", n - 1, a0 + "," + segs[-1]))
        # an alias at the end of a list, and lists of two aliases (both orders)
        for a in sorted(ref.alias):
            out.append(("seg", n - 1, segs[-1] + "," + a))
            for b in sorted(ref.alias):
                if a != b:
                    out.append(("seg", n - 1, a + "," + b))
    if with_dstar:
        for i in range(1, n + 1):
            for j in range(i, n + 1):
                out.append(("dstar", i, j))
    return out


def query_menu(ref, typ, segs):
    keys = ref.keys(typ)
    base = ref.basetype(typ)
    chain = list(ref.key_types.get(base, keys))
    out = []
    if len(keys) >= 2:
        k = keys[-1]
        vals = [v for v in key_values(ref, typ, len(keys) - 1) if v != segs[-1] and v not in ref.alias]
        other = vals[0] if vals else "zz"
        out += [f"{k}={other}", f"{k}=*", f"{k}=~{other}", f"{k}={segs[-1]},{other}", f"{k}=>"]
        out += [f"{k}= {other}", f"{k} = {other} "]        # blanks around a filter value are tolerated (documented spelling)
        k1 = keys[1]
        v1 = [v for v in key_values(ref, typ, 1) if v != segs[1]]
        out += [f"{k1}={v1[0] if v1 else 'zz'}", f"{k1}=bogus"]
    else:
        out += [f"{keys[0]}=*", f"{keys[0]}=bogus"]
    deeper = [k for k in chain if k not in keys]
    if deeper:
        # value for the deeper key: from a longer type of the same basetype
        val = "*"
        for t2 in ref.types:
            if ref.basetype(t2) == base and deeper[0] in ref.keys(t2):
                vs = key_values(ref, t2, ref.keys(t2).index(deeper[0]))
                if vs:
                    val = vs[0]
                    break
        out += [f"{deeper[0]}={val}", f"{deeper[0]}=~{val}", f"{deeper[0]}=*", f"{deeper[0]}=>"]
    for b2, ch in ref.key_types.items():
        f = [k for k in ch if k not in chain]
        if b2 != base and f:
            out.append(f"{f[0]}=*")
            break
    out += ["bogus=1", "bogus=~1"]
    leafs = [v for v in set(ref.leaf_keys.values()) if v]
    if ref.alias and leafs:
        lk = ref.leaf_keys.get(base) or leafs[0]
        out.append(f"{lk}={sorted(ref.alias)[-1]}")
        out.append(f"{lk}=zz,{sorted(ref.alias)[-1]}")        # the alias last in a list of filter values
    res = []
    for q in out:
        if q not in res:
            res.append(q)
    return res


def build(segs, edits, queries):
    s = list(segs)
    ds = None
    for e in edits:
        if e[0] == "seg":
            s[e[1]] = e[2]
        else:
            ds = e
    if ds:
        _, i, j = ds
        s = s[:i] + ["**"] + s[j:]
    st = "/".join(s)
    if queries:
        st += "?" + "&".join(queries)
    return st


def compatible(edits):
    pos = [e[1] for e in edits if e[0] == "seg"]
    if len(pos) != len(set(pos)):
        return False
    ds = [e for e in edits if e[0] == "dstar"]
    if len(ds) > 1:
        return False
    if ds:
        _, i, j = ds[0]
        if any(i <= p < j for p in pos):
            return False
    return True


def family(ref, k=2, max_queries=2, with_last=True, with_dstar=True, rep=0, types=None):
    """All searches within k edits (segment edits + query filters) of each base, plus every star-subset."""
    for typ, segs in bases(ref, rep):
        if types is not None and typ not in types:
            continue
        n = len(segs)
        yield "/".join(segs)
        for mask in range(1, 2 ** n):
            yield "/".join("*" if mask >> i & 1 else segs[i] for i in range(n))
        se = segment_edits(ref, typ, segs, with_last, with_dstar)
        qm = query_menu(ref, typ, segs)
        menu = [("e", e) for e in se] + [("q", q) for q in qm]
        for r in range(1, k + 1):
            for combo in itertools.combinations(menu, r):
                ed = [x[1] for x in combo if x[0] == "e"]
                qs = [x[1] for x in combo if x[0] == "q"]
                if len(qs) > max_queries or not compatible(ed):
                    continue
                if len({q.split("=")[0] for q in qs}) != len(qs):
                    continue
                yield build(segs, ed, qs)


def malformed(ref):
    out = ["", "?", "**", "*/**", "bla/**", "bla/*?x=y", "bla?x=y", "bla/bla/**/ma", "?project=*", "/", "//", "hamlet//a"]
    for typ, segs in bases(ref):
        s = "/".join(segs)
        out += [s + "/**/**", s + "/**/x/**", "zz/" + s + "/**", s + "/**/**/ma", s + "**", "**/" + s]
        if len(segs) > 2:
            out.append("/".join(segs[:1] + ["**"] + segs[2:3] + ["**"]))
        out += ["zz/" + s + "?project=*", "zz/*?project=*", s + "/zz/zz/zz?project=*"]
        # filters with a pair that is no 'key=value' (a typo, an empty pair): such a pair is dropped, the rest applies
        k0 = ref.keys(typ)[0]
        star = "/".join(segs[:-1] + ["*"]) if len(segs) > 1 else s
        for q in ("whatever", k0 + "=" + segs[0] + "&x", "yes?yes", k0 + "=" + segs[0] + "&&" + k0 + "=" + segs[0], "=", "=x", "x="):
            out += [s + "?" + q, star + "?" + q]
        if len(segs) > 2:
            out.append("/".join(segs[:2]) + "/**?whatever")
    return out
