"""setup_cmd: nothing to build (pure Python); verifies that the tools the checks rely on are present offline."""
import os, sys, subprocess

def main():
    assert sys.version_info >= (3, 10), sys.version
    assert os.path.isdir("/repo/spil"), "/repo/spil missing"
    import resolva  # noqa  (dependency of spil, installed in /venv)
    out = subprocess.run([sys.executable, "-c", "import sys; sys.path.insert(0, '/repo/spil_hamlet_conf'); sys.path.insert(0, '/repo'); "
                          "import os; os.environ['HOME']='/dev/shm'; import spil; print(spil.__file__)"],
                         capture_output=True, text=True)
    assert out.returncode == 0 and "/repo/spil/" in out.stdout, out.stdout + out.stderr
    print("selftest ok:", out.stdout.strip().splitlines()[-1])

if __name__ == "__main__":
    main()
