"""Regenerates /verif/MANIFEST.json from the property modules present in props/ (python3 -m mc.manifest)."""
from __future__ import annotations
import json, os, importlib, glob

VERIF = os.path.dirname(os.path.dirname(os.path.abspath(__file__)))
BASELINE_CMD = ("cd /repo && /venv/bin/python -m pytest -ra -q -p no:cacheprovider --timeout=900 "
                "--continue-on-collection-errors")

ENGINES = [
    {"name": "E1-bounded-exhaustive-inputs", "path": "mc/rec.py, mc/runner.py, props/c01..c11,c16,c19.py",
     "kind_free_text": "explicit enumeration of a finite input space (full products + all <=k-edit deviations of valid "
                       "skeletons), every element executed on the real code and compared with a reference model or a "
                       "metamorphic relation; exact de-duplication by content-hash sharding"},
    {"name": "E2-explicit-state-histories", "path": "mc/bfs.py, props/c12,c13,c14,c15,c18.py",
     "kind_free_text": "breadth-first explicit-state search over operation histories of the real API; state = canonical "
                       "file tree / cache contents; hash de-duplication; invariant + reference comparison in every state"},
    {"name": "E3-crash-and-fault-enumeration", "path": "mc/faultfs.py, props/c17.py",
     "kind_free_text": "file-system effect log of the real write path, every prefix with every append cut at every "
                       "byte, recovered and compared with old/new; every sidecar corruption"},
    {"name": "E4-configuration-enumeration", "path": "mc/confgen/, props/c19.py, props/c20.py",
     "kind_free_text": "generated template tables / complete configuration packages, each loaded in a fresh process"},
]


def main():
    props = {}
    with open(os.path.join(VERIF, "properties.jsonl")) as f:
        for line in f:
            if line.strip():
                p = json.loads(line)
                props[p["id"]] = p
    checks, na = [], []
    for pid in sorted(props):
        path = os.path.join(VERIF, "props", pid.lower() + ".py")
        mod = None
        if os.path.exists(path):
            mod = importlib.import_module("props." + pid.lower())
        if mod is None or getattr(mod, "NOT_CLAIMED", None):
            na.append({"property_id": pid, "reason": getattr(mod, "NOT_CLAIMED", None) or
                       "check not built yet (work in progress; design in DESIGN.md section 4)"})
            continue
        checks.append({
            "property_id": pid,
            "quick_cmd": f"./check {pid} --tier quick",
            "thorough_cmd": f"./check {pid} --tier thorough",
            "evidence_file": f"/verif/evidence/{pid}.json",
            "replay_cmd_template": f"./check {pid} --replay {{path}}",
            "engine": getattr(mod, "ENGINE", "E1-bounded-exhaustive-inputs"),
            "level_claimed": {"category": mod.LEVEL, "text": getattr(mod, "LEVEL_TEXT", mod.RULE)[:1500],
                              "design_ref": f"DESIGN.md section 4, {pid}"},
            "level_note": "; ".join(getattr(mod, "ASSUMPTIONS", [])) or "reference model in mc/ref is trusted",
            "technique": getattr(mod, "TECHNIQUE", "bounded-exhaustive enumeration of inputs on the real code vs reference model"),
        })
    man = {
        "version": 1,
        "setup_cmd": "cd /verif && /venv/bin/python -m mc.selftest",
        "hooks": {"guard": "SPIL_VERIF", "enable": "no source hooks: checks import spil from /repo's working tree with a "
                  "scratch copy of the configuration first on PYTHONPATH; cache capacity and file effects are patched "
                  "from the harness at run time", "baseline_off_cmd": BASELINE_CMD, "source_commits": [], "add_only": True},
        "engines": ENGINES,
        "checks": checks,
        "not_applicable": na,
        "notes": "All checks explore the real implementation exhaustively within stated bounds (model checking family: "
                 "explicit enumeration, no sampling, no solver). Known genuine defects are listed in known_findings.json.",
    }
    with open(os.path.join(VERIF, "MANIFEST.json"), "w") as f:
        json.dump(man, f, indent=1)
    print(f"MANIFEST.json: {len(checks)} checks, {len(na)} not_applicable")


if __name__ == "__main__":
    main()
