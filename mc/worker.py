"""Worker entry point. Runs inside the environment prepared by mc.runner (scratch configuration first on the path).

  python -m mc.worker run    <PROP> <shard.json> <result.json>
  python -m mc.worker replay <PROP> <cases.json> <result.json>
"""
from __future__ import annotations
import sys, json, importlib, traceback, os


def main():
    mode, prop, inp, outp = sys.argv[1:5]
    mod = importlib.import_module("props." + prop.lower())
    with open(inp) as f:
        arg = json.load(f)
    try:
        if getattr(mod, "NEEDS_SPIL", True):
            from mc import env
            env.boot()
        if mode == "run":
            res = mod.run_shard(arg)
        elif mode == "replay":
            res = {"replays": []}
            def one(v):
                if getattr(mod, "NEEDS_SPIL", True):
                    from mc import env
                    env.reset()          # every replay starts from cold caches (a violation may have polluted them)
                return mod.replay_case(v["kind"], v["case"])
            for v in arg["violations"]:
                if arg.get("single"):
                    # one replay per process: the driver compares two processes (state that survives env.reset() -
                    # a mutable default argument, a module global - must not leak from one replay into the next)
                    got = one(v)
                    res["replays"].append({"signature": v["signature"], "runs": [sorted(set(x["signature"] for x in got))], "details": got})
                    continue
                runs = []
                for _ in range(2):
                    got = one(v)
                    runs.append(sorted(set(x["signature"] for x in got)))
                res["replays"].append({"signature": v["signature"], "runs": runs, "details": one(v)})
        else:
            raise SystemExit("bad mode")
        res["ok"] = True
    except BaseException as e:  # noqa
        res = {"ok": False, "error": "".join(traceback.format_exception(type(e), e, e.__traceback__))}
    tmp = outp + ".tmp"
    with open(tmp, "w") as f:
        json.dump(res, f)
    os.replace(tmp, outp)
    sys.exit(0 if res.get("ok") else 3)


if __name__ == "__main__":
    main()
