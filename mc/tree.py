"""File-tree handling: materialise a universe of entities through the *reference* path rendering, snapshot and restore
canonical trees.  No spil call in here."""
from __future__ import annotations
import os, shutil


def entity_path(ref, pr, s: str, typ: str | None = None):
    """-> (path, is_file) for a concrete Sid string under path configuration view pr, or None if the type has no path."""
    if typ is None:
        typ, d = ref.natural(s)
    else:
        d = ref.forced(s, typ)
    if typ is None or d is None or not pr.has_path(typ):
        return None
    p = pr.render(typ, d)
    if p is None:
        return None
    return p, ref.is_leaf_type(typ)


def materialize(ref, pr, sids, data: dict | None = None):
    """Create files/folders for every entity (parents come with them). data: {sid string: dict} -> sidecars."""
    import json
    made = []
    for s in sids:
        ep = entity_path(ref, pr, s)
        if ep is None:
            continue
        p, is_file = ep
        if is_file:
            os.makedirs(os.path.dirname(p), exist_ok=True)
            if not os.path.exists(p):
                with open(p, "w"):
                    pass
        else:
            os.makedirs(p, exist_ok=True)
        made.append(p)
        if data and s in data:
            with open(pr.sidecar(p), "w") as f:
                f.write(json.dumps(data[s], indent=4, default=str))
    return made


def snapshot(root: str):
    """Canonical tree: sorted tuple of (relative path, kind, bytes|None)."""
    out = []
    if not os.path.isdir(root):
        return tuple()
    for d, ds, fs in os.walk(root):
        for x in ds:
            out.append((os.path.relpath(os.path.join(d, x), root), "d", None))
        for x in fs:
            p = os.path.join(d, x)
            with open(p, "rb") as f:
                out.append((os.path.relpath(p, root), "f", f.read()))
    return tuple(sorted(out))


def restore(root: str, snap):
    shutil.rmtree(root, ignore_errors=True)
    os.makedirs(root, exist_ok=True)
    for rel, kind, data in snap:
        p = os.path.join(root, rel)
        if kind == "d":
            os.makedirs(p, exist_ok=True)
        else:
            os.makedirs(os.path.dirname(p), exist_ok=True)
            with open(p, "wb") as f:
                f.write(data)


def closure(ref, sids):
    """The set of strings of all '/'-prefixes of the given entity strings that are typed (the hierarchy above them)."""
    out = set()
    for s in sids:
        parts = s.split("/")
        for i in range(1, len(parts) + 1):
            p = "/".join(parts[:i])
            if ref.natural(p)[0]:
                out.add(p)
    return out
