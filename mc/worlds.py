"""Worlds: one generated universe materialised as a list, a LOCAL tree and a SERVER tree, with the reference store."""
from __future__ import annotations
import os
from mc import env, tree, datagen
from mc.ref.model import Conf
from mc.ref.paths import PathsRef
from mc.ref.confview import load_private
from mc.ref import store as rstore


class World:
    def __init__(self, ref: Conf, leaves, name="w"):
        self.ref = ref
        self.name = name
        self.leaves = list(leaves)
        self.prs = {n: PathsRef(n) for n in PathsRef().configs}
        self.names = list(self.prs)
        self.sources = rstore.sources_for_demo(load_private("spil_sid_conf"))
        self.store = rstore.Store(ref, self.prs[self.names[0]], self.leaves, self.sources)

    def materialize(self, junk=None):
        env.clear_tree()
        for n in self.names:
            tree.materialize(self.ref, self.prs[n], self.leaves)
        if junk:
            for n in self.names:
                root = self.prs[n].root()
                for rel, kind in junk:
                    p = os.path.join(root, rel)
                    if kind == "d":
                        os.makedirs(p, exist_ok=True)
                    else:
                        os.makedirs(os.path.dirname(p), exist_ok=True)
                        with open(p, "w") as f:
                            f.write("junk")

    def finders(self):
        from spil import FindInPaths, FindInAll, FindInList
        L = self.store.list_for_paths()
        f = {"list": FindInList(L), "all": FindInAll()}
        for n in self.names:
            f[n] = FindInPaths(n)
        # a second FindInAll, created with a configuration name (the argument is handed to the configuration's routing;
        # the name of the default path configuration denotes the same data sources as no name)
        f["all:named"] = FindInAll(self.names[0])
        return f


def touch_first(name=None):
    """Load one path configuration before anything else touches one (a configuration module may derive its tables from
    another's, so what it is can depend on which was loaded first). Without a name: the one the driver asked for."""
    import os
    name = name or os.environ.get("VERIF_FIRST_CONFIG")
    if name:
        from spil.sid.pathops.pathconfig import get_path_config
        get_path_config(name)
    return name


def tag_first(res, first):
    """Confirmation of a violation happens in a process that loads the same configuration first."""
    for lst in res["violations"].values():
        for v in lst:
            v["env"] = {"env": {"VERIF_FIRST_CONFIG": first or ""}}
    return res


def universes(ref: Conf, tier="quick"):
    """name -> list of leaf strings."""
    out = {}
    full = datagen.leaf_universe(ref, n_versions=3)
    out["full"] = full
    leaf_types = [t for t in ref.types if ref.is_leaf_type(t)]
    out["one-basetype"] = [s for s in full if ref.basetype(ref.natural(s)[0]) == ref.basetype(leaf_types[0])]
    out["sparse"] = full[::4]
    if tier == "thorough":
        out["names-only"] = datagen.leaf_universe(ref, n_versions=1, per_key=1)
        out["dense-versions"] = datagen.leaf_universe(ref, names=["ab"], n_versions=6, types=leaf_types[:2])
        out["empty"] = []
    return out
