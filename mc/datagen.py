"""Generated entity universes (lists of leaf Sid strings), derived from the loaded configuration."""
from __future__ import annotations
from mc import universe

PREFIX_NAMES = ["ab", "ab-c", "abc", "ab.c", "ab+c"]


def leaf_universe(ref, names=PREFIX_NAMES, n_versions=3, per_key=2, types=None):
    """For every leaf type: the base entity + every single-key variation (names sharing prefixes on open keys,
    version-like digit values, other closed-vocabulary members) + pairs (name x version)."""
    out = []
    pool_l, pool_d = ref.literals(), ref.digit_instances()
    conc = universe.one_per_type(ref)
    for typ in ref.types:
        if not ref.is_leaf_type(typ) or (types is not None and typ not in types):
            continue
        base = conc[typ].split("/")
        alts = []
        for i, (k, p) in enumerate(ref.templates[typ]):
            if p is None:
                vals = list(names)
            else:
                lit = [v for v in ref.accepted(typ, i, pool_l) if v not in ref.alias]
                dig = ref.accepted(typ, i, pool_d)
                vals = (dig[:n_versions] if dig else lit[:per_key + 1])
            alts.append([v for v in vals if v != base[i]])
        add = lambda segs: out.append("/".join(segs)) if "/".join(segs) not in out else None
        add(base)
        for i, vals in enumerate(alts):
            for v in vals:
                s = list(base)
                s[i] = v
                add(s)
        open_i = [i for i, (k, p) in enumerate(ref.templates[typ]) if p is None]
        dig_i = [i for i, (k, p) in enumerate(ref.templates[typ]) if p is not None and ref.accepted(typ, i, pool_d)]
        for i in open_i[:1]:
            for j in dig_i[-1:]:
                for v in alts[i][:3]:
                    for w in alts[j][:2]:
                        s = list(base)
                        s[i], s[j] = v, w
                        add(s)
    return [s for s in out if ref.natural(s)[0]]


def closure_list(ref, leaves):
    out = []
    for s in leaves:
        parts = s.split("/")
        for i in range(1, len(parts) + 1):
            p = "/".join(parts[:i])
            if p not in out:
                out.append(p)
    return out


def near_misses(ref, leaves):
    out = []
    for s in leaves[:: max(1, len(leaves) // 12)]:
        parts = s.split("/")
        out += [s + "/x", "/".join(parts[:-1] + ["zz"]), "/".join(parts[:2] + ["bogus"] + parts[3:]), "x/" + s, s.upper(), s + " "]
    out += ["bla", "", "hamlet//a", "/", "bla/bla/bla"]
    for s in leaves[:: max(1, len(leaves) // 6)]:
        parts = s.split("/")
        for i in range(len(parts)):
            out.append("/".join(parts[:i] + ["zz8"] + parts[i + 1:]))      # untyped entries that an untypable alternative would glob-match
            out.append("/".join(parts[:i] + ["bogus"] + parts[i + 1:]))
    return out
