"""Universes of Sid strings derived from the loaded configuration (never from demo literals)."""
from __future__ import annotations
import itertools

NAMES = ["ophelia", "my_hero", "a_rig", "x.y", "ab-c"]


def value_sets(ref, typ, n_closed=2, n_digit=2, n_names=2, search=True, aliases=True, empty=False):
    """Per key of typ: list of values (concrete members, then '*', '>')."""
    pool_l = ref.literals()
    pool_d = ref.digit_instances()
    tpl = ref.templates[typ]
    out = []
    for i, (k, p) in enumerate(tpl):
        if p is None:
            vals = NAMES[:n_names] + ([""] if empty and ref._rx[typ][i].fullmatch("") else [])
        else:
            lit = ref.accepted(typ, i, pool_l)
            dig = ref.accepted(typ, i, pool_d)
            # aliases are literals too (they are in the ext vocabularies); keep them at the end
            al = [x for x in lit if x in ref.alias]
            lit = [x for x in lit if x not in ref.alias]
            vals = lit[:n_closed] + _spread(dig, n_digit)
            if aliases and i == len(tpl) - 1:
                vals += al
            if not vals:
                vals = [c for c in NAMES[:n_names] if ref._rx[typ][i].fullmatch(c)]
        if search:
            for s in (("*",) if search == "star-only" else ("*", ">")):
                if ref._rx[typ][i].fullmatch(s):
                    vals = vals + [s]
        out.append(vals)
    return out


def _spread(lst, n):
    if n >= len(lst):
        return list(lst)
    if n <= 0:
        return []
    if n == 1:
        return [lst[1 if len(lst) > 1 else 0]]
    step = (len(lst) - 1) / (n - 1)
    return [lst[round(i * step)] for i in range(n)]


def typed_strings(ref, typ, **kw):
    for combo in itertools.product(*value_sets(ref, typ, **kw)):
        yield "/".join(combo)


def one_per_type(ref, rep=0):
    """One concrete string per type."""
    out = {}
    for typ in ref.types:
        vs = value_sets(ref, typ, n_closed=3, n_digit=3, n_names=3, search=False, aliases=False)
        out[typ] = "/".join(v[min(rep, len(v) - 1)] if v else "x" for v in vs)
    return out
