"""Environment for workers: scratch configuration copy, process bootstrap, cache reset.

Driver side (no spil import):  make_scratch(), worker_env(), copy_conf()
Worker side (spil imported):   boot(), reset(), caches(), roots()

The demo path configurations derive their roots from __file__, so a private copy of
/repo/spil_hamlet_conf/*.py per worker gives each worker private LOCAL / SERVER trees and
/repo is never written to.
"""
from __future__ import annotations
import os, sys, shutil, tempfile, logging, atexit

REPO = os.environ.get("VERIF_REPO", "/repo")
VERIF = os.path.dirname(os.path.dirname(os.path.abspath(__file__)))
PY = "/venv/bin/python"


# ----------------------------------------------------------------------------- driver side
def scratch_base() -> str:
    base = "/dev/shm" if os.path.isdir("/dev/shm") and os.access("/dev/shm", os.W_OK) else tempfile.gettempdir()
    return base


def make_scratch(tag: str) -> str:
    d = tempfile.mkdtemp(prefix=f"spilverif-{tag}-", dir=scratch_base())
    atexit.register(shutil.rmtree, d, True)
    return d


def copy_conf(dst: str, src: str | None = None) -> str:
    """Copy the configuration package (the *.py files + hamlet_plugins) to dst/conf. Returns the conf dir."""
    src = src or os.path.join(REPO, "spil_hamlet_conf")
    conf = os.path.join(dst, "conf")
    os.makedirs(conf, exist_ok=True)
    for n in os.listdir(src):
        p = os.path.join(src, n)
        if n.endswith(".py") and os.path.isfile(p):
            shutil.copy(p, os.path.join(conf, n))
    plug = os.path.join(src, "hamlet_plugins")
    if os.path.isdir(plug):
        shutil.copytree(plug, os.path.join(conf, "hamlet_plugins"), dirs_exist_ok=True,
                        ignore=shutil.ignore_patterns("__pycache__"))
    os.makedirs(os.path.join(dst, "home"), exist_ok=True)
    return conf


def worker_env(workdir: str, hashseed: int | str = 0, extra: dict | None = None) -> dict:
    env = {k: v for k, v in os.environ.items() if k not in ("PYTHONPATH", "PYTHONSTARTUP")}
    env["PYTHONHASHSEED"] = str(hashseed)
    env["HOME"] = os.path.join(workdir, "home")
    env["PYTHONPATH"] = os.pathsep.join([os.path.join(workdir, "conf"), REPO, VERIF])
    env["PYTHONDONTWRITEBYTECODE"] = "1"
    env["SPIL_VERIF"] = "1"
    env["VERIF_WORKDIR"] = workdir
    if extra:
        env.update({k: str(v) for k, v in extra.items()})
    return env


# ----------------------------------------------------------------------------- worker side
_booted = False


def boot():
    """Import spil from /repo under the scratch configuration; silence logging; sanity-check origins."""
    global _booted
    if _booted:
        return
    workdir = os.environ["VERIF_WORKDIR"]
    import spil  # noqa
    assert os.path.realpath(spil.__file__).startswith(os.path.realpath(REPO) + os.sep), spil.__file__
    import spil_sid_conf
    assert os.path.realpath(spil_sid_conf.__file__).startswith(os.path.realpath(workdir) + os.sep), spil_sid_conf.__file__
    from spil.util.log import setLevel
    setLevel(logging.CRITICAL)
    import resolva.utils
    resolva.utils.log.setLevel(logging.CRITICAL)
    logging.getLogger().setLevel(logging.CRITICAL)
    _booted = True


def roots() -> dict:
    w = os.environ["VERIF_WORKDIR"]
    b = os.path.join(w, "conf", "data", "testing", "SPIL_PROJECTS")
    return {"local": os.path.join(b, "LOCAL", "PROJECTS"), "server": os.path.join(b, "SERVER", "PROJECTS"), "base": b}


def caches() -> dict:
    """All spil cache wrappers (anything with cache_clear under spil.*), by qualified name."""
    out = {}
    for name, mod in list(sys.modules.items()):
        if mod is None or not (name == "spil" or name.startswith("spil.")):
            continue
        for a, v in list(vars(mod).items()):
            if callable(v) and hasattr(v, "cache_clear"):
                out[getattr(v, "__module__", name) + "." + getattr(v, "__qualname__", a)] = v
            if isinstance(v, type):
                for b, m in list(vars(v).items()):
                    if hasattr(m, "cache_clear"):
                        out[v.__module__ + "." + v.__qualname__ + "." + b] = m
    return out


RESET_HOOKS: list = []      # state the harness itself keeps across calls (long-lived Finder objects of a history)


def reset(keep_path_config: bool = True):
    """Cold caches. get_path_config is kept by default: PathConfig() rewrites its module's templates in
    place and registers a Resolver, re-creating it is a configuration reload, not a cache miss."""
    import resolva
    for h in RESET_HOOKS:
        h()
    for n, c in caches().items():
        if keep_path_config and n.endswith("get_path_config"):
            continue
        c.cache_clear()
    for m in ("resolve_first", "resolve_one", "resolve_all"):
        getattr(resolva.Resolver, m).cache_clear()
    # process-long singletons of the data configuration (its Finders / Getters are created once and may hold state)
    dc = sys.modules.get("spil_data_conf")
    if dc is not None:
        for name, val in list(vars(dc).items()):
            if name.startswith("_") and not name.startswith("__") and isinstance(val, dict) and name != "_verif_sources":
                val.clear()


def set_cache_capacity(n: int | None):
    import spil.util.caching as c
    if not hasattr(set_cache_capacity, "_default"):
        set_cache_capacity._default = c._max_size
    c._max_size = set_cache_capacity._default if n is None else n


def clear_tree():
    r = roots()
    shutil.rmtree(r["base"], ignore_errors=True)
    os.makedirs(r["local"], exist_ok=True)
    os.makedirs(r["server"], exist_ok=True)
