"""Explicit-state breadth-first exploration over file-tree states (E2).

State      = canonical tree (sorted (relative path, kind, bytes)) of the LOCAL root (+ SERVER root if asked).
Transition = one real API call, executed on the restored tree with cold caches.
A state is re-created by restoring its canonical tree; the canonicalisation argument (cold caches => the future depends
on the tree only) is itself checked: whenever a state is reached again through another history, the model state carried
by the first history must equal the model state of the new one (differential oracle).
"""
from __future__ import annotations
import collections, hashlib, json


def tree_key(snap) -> str:
    h = hashlib.sha1()
    for rel, kind, data in snap:
        h.update(rel.encode())
        h.update(kind.encode())
        h.update(data if data is not None else b"\0")
        h.update(b"|")
    return h.hexdigest()


class Explorer:
    def __init__(self, rec, restore, snapshot, apply_op, model_apply, model_key, check_state, ops, max_depth, max_states=None):
        """
        restore(snap), snapshot() -> snap      : tree handling
        apply_op(op) -> observed result        : executes the real call (caches reset by the caller inside)
        model_apply(model, op) -> (model', expected result)
        model_key(model) -> hashable           : canonical model state
        check_state(model, hist) -> list of violations (dict signature/observed/expected)
        """
        self.rec, self.restore, self.snapshot = rec, restore, snapshot
        self.apply_op, self.model_apply, self.model_key, self.check_state = apply_op, model_apply, model_key, check_state
        self.ops, self.max_depth, self.max_states = ops, max_depth, max_states
        self.seen = {}
        self.closed = False
        self.depth_reached = 0

    def run(self, init_hist, init_model, op_name=lambda o: json.dumps(o)):
        rec = self.rec
        snap0 = self.snapshot()
        k0 = tree_key(snap0)
        self.seen[k0] = (self.model_key(init_model), list(init_hist))
        frontier = collections.deque([(snap0, init_model, list(init_hist), 0)])
        rec.states += 1
        for v in self.check_state(init_model, list(init_hist)):
            rec.violation(v["signature"], "history", {"hist": list(init_hist)}, v.get("observed"), v.get("expected"))
        while frontier:
            snap, model, hist, depth = frontier.popleft()
            self.depth_reached = max(self.depth_reached, depth)
            if depth >= self.max_depth:
                self.cut = True
                continue
            for op in self.ops:
                if self.max_states and rec.states >= self.max_states:
                    rec.cap(f"max_states={self.max_states}")
                    return
                self.restore(snap)
                got = self.apply_op(op)
                model2, want = self.model_apply(model, op)
                rec.transitions += 1
                h2 = hist + [op]
                if got != want:
                    rec.violation("operation-result/" + _sig(op, got, want), "history", {"hist": h2}, got, want)
                    continue   # the model no longer tracks the implementation: nothing below this transition is judged
                snap2 = self.snapshot()
                k2 = tree_key(snap2)
                if isinstance(want, list) and want[:1] == ["EXC"] and k2 != tree_key(snap):
                    rec.violation("failed-operation-changed-the-tree/" + str(op[0]), "history", {"hist": h2}, "tree changed", "unchanged")
                mk2 = self.model_key(model2)
                if k2 in self.seen:
                    if self.seen[k2][0] != mk2:
                        rec.violation("same-tree-different-model-state", "history", {"hist": h2, "other": self.seen[k2][1]},
                                      "two histories reach the same tree but the model distinguishes them", "equal")
                    continue
                self.seen[k2] = (mk2, h2)
                rec.states += 1
                rec.traces += 1
                for v in self.check_state(model2, h2):
                    rec.violation(v["signature"], "history", {"hist": h2}, v.get("observed"), v.get("expected"))
                rec.case("state-depth-%d" % (depth + 1), True, sample={"hist": h2})
                frontier.append((snap2, model2, h2, depth + 1))
        self.closed = not getattr(self, "cut", False)


def _sig(op, got, want):
    g = got[1] if isinstance(got, list) and got[:1] == ["EXC"] else "ok"
    w = want[1] if isinstance(want, list) and want[:1] == ["EXC"] else "ok"
    return f"{op[0]}/{g}-instead-of-{w}"
