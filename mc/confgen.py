"""E4: complete configuration packages generated from a declarative specification.

DEMO is a hand-written specification of the data of /repo/spil_hamlet_conf; render(spec, dir) writes a full package
(spil_sid_conf.py, spil_fs_conf.py, further spil_fs_*_conf.py, spil_data_conf.py incl. routing code and a declarative
description of it, hamlet_plugins/next_get.py).  Operators transform the *data*, never text.
Guards: binding (render(DEMO) loads to the same tables as the repository's demo package) and a well-formedness validator
for every derived package (the conventions listed in C20).
"""
from __future__ import annotations
import copy, os, re, json, itertools

SEARCH = r"|\*|\>"


def closed(values):
    return "(" + "|".join(values) + SEARCH + ")"


DEMO = {
    "projects": {"hamlet": "HAMLET"},
    "key_project": "project", "key_type": "type",
    "sep": "_", "prod": "PROD",
    "ext_sets": {"scenes": ["ma", "mb", "hip", "blend", "hou", "psd", "nk", "maya"],
                 "caches": ["abc", "json", "fur", "grm", "vdb", "cache"],
                 "movies": ["mp4", "mov", "avi", "movie"]},
    "alias": {"cache": ["abc", "json", "fur", "grm", "vdb"], "hou": ["hip", "hipnc"], "maya": ["ma", "mb"], "movie": ["mp4", "mov", "avi"]},
    "leaf_key": "ext",
    "state": {"key": "state", "values": {"w": "WORK", "p": "PUBLISH"}, "default": "WORK"},
    "version": {"key": "version", "prefix": "v", "digits": 3},
    "path_configs": {"local": "LOCAL", "server": "SERVER"}, "default_path_config": "local",
    "basetypes": [
        {"name": "asset", "code": "a", "folder": "ASSETS",
         # chain after project/type: (key, kind, data)   kind: closed | open | digit | version | state | leaf
         "chain": [("assettype", "closed", ["char", "location", "prop", "fx"]), ("asset", "open", None),
                   ("task", "closed", ["art", "model", "surface", "rig"]), ("version", "version", None), ("state", "state", None)],
         "dirs": {"assettype": "{assettype}", "asset": "{asset}", "task": "{task}", "version": "{version}"},
         "constants": {"assettype": ["char", "location", "prop", "fx"]},
         "leaves": [
             {"type": "file", "ext": "scenes", "sub": None, "name": ["assettype", "asset", "task", "state", "version"], "extra": []},
             {"type": "movie_file", "ext": "movies", "sub": "OUTPUT", "name": ["assettype", "asset", "task", "state", "version"], "extra": []},
             {"type": "cache_file", "ext": "caches", "sub": "OUTPUT", "name": ["assettype", "asset", "task", "state", "version"], "extra": []},
         ]},
        {"name": "shot", "code": "s", "folder": "SHOTS",
         "chain": [("sequence", "digit", ("sq", 3)), ("shot", "digit", ("sh", 4)),
                   ("task", "closed", ["board", "layout", "anim", "fx", "render", "comp"]), ("version", "version", None), ("state", "state", None)],
         "dirs": {"sequence": "{sequence}", "shot": "{sequence}_{shot}", "task": "{task}", "version": "{version}"},
         "constants": {},
         "leaves": [
             {"type": "file", "ext": "scenes", "sub": None, "name": ["sequence", "shot", "task", "state", "version"], "extra": []},
             {"type": "movie_file", "ext": "movies", "sub": "EXPORT", "name": ["sequence", "shot", "task", "state", "version"], "extra": []},
             {"type": "cache_file", "ext": "caches", "sub": "EXPORT", "name": ["sequence", "shot", "state", "version"], "extra": []},
             {"type": "cache_node_file", "ext": "caches", "sub": "EXPORT", "name": ["sequence", "shot", "task", "node", "state", "version"], "extra": [("node", "open", None)],
              "node_type": "cache_node"},
         ]},
    ],
}


# ------------------------------------------------------------------------------------------------ rendering
def _pat(spec, key, kind, data):
    if kind == "closed":
        return closed(data)
    if kind == "digit":
        return "(" + data[0] + "\\d" * data[1] + SEARCH + ")"
    if kind == "version":
        v = spec["version"]
        return "(" + v["prefix"] + "\\d" * v["digits"] + SEARCH + ")"
    if kind == "state":
        return closed(list(spec["state"]["values"]))
    return None


def sid_tables(spec):
    """-> (sid_templates ordered dict, to_extrapolate, key_patterns, key_types, leaf_keys, narrowing)"""
    P, T, L = spec["key_project"], spec["key_type"], spec["leaf_key"]
    templates, to_x, key_types, narrowing = {}, [], {}, {}
    ALL = ""   # the empty selector is a substring of every type name (the demo's 't' only works while every type name contains a 't')
    kp = {"__": {}, ALL: {}}
    skey, vkey = spec["state"]["key"], spec["version"]["key"]
    kp["__"]["{%s}" % skey] = "{%s:%s}" % (skey, closed(list(spec["state"]["values"])))
    kp["__"]["{%s}" % vkey] = "{%s:%s}" % (vkey, _pat(spec, vkey, "version", None))
    for Lb in sorted({b.get("leaf_key", L) for b in spec["basetypes"]} | {L}):
        for name, vals in spec["ext_sets"].items():
            kp["__"]["{%s:%s}" % (Lb, name)] = "{%s:%s}" % (Lb, closed(vals))
    kp[ALL]["{%s}" % P] = "{%s:%s}" % (P, closed(list(spec["projects"])))
    for b in spec["basetypes"]:
        base = "/".join(["{%s}" % P, "{%s:%s}" % (T, b["code"])] + ["{%s}" % k for k, _, _ in b["chain"]])
        kp[ALL]["{%s:%s}" % (T, b["code"])] = "{%s:(%s%s)}" % (T, b["code"], SEARCH)
        sel = b["name"] + "__"
        kp.setdefault(sel, {})
        for k, kind, data in b["chain"] + [x for lf in b["leaves"] for x in lf["extra"]]:
            if kind in ("closed",):
                kp[sel]["{%s}" % k] = "{%s:%s}" % (k, closed(data))
            elif kind == "digit":
                kp["__"]["{%s}" % k] = "{%s:%s}" % (k, _pat(spec, k, kind, data))
            elif kind == "open" and spec.get("open_pattern"):
                # free-text keys with a pattern of their own (names must not contain the file-name separator): the pattern text
                # itself contains the Sid separator
                kp[sel]["{%s}" % k] = "{%s:(%s)}" % (k, spec["open_pattern"])
        Lb = b.get("leaf_key", L)      # a basetype may have its own leaf key
        for lf in b["leaves"]:
            extra = "".join("/{%s}" % k for k, _, _ in lf["extra"])
            templates[b["name"] + "__" + lf["type"]] = base + extra + "/{%s:%s}" % (Lb, lf["ext"])
            if lf.get("node_type"):
                templates[b["name"] + "__" + lf["node_type"]] = base + extra
        for k in spec.get("explicit_levels", {}).get(b["name"], []):     # an intermediate level written out by hand
            ks = [c for c, _, _ in b["chain"]]
            templates[b["name"] + "__" + k] = "/".join(["{%s}" % P, "{%s:%s}" % (T, b["code"])] + ["{%s}" % c for c in ks[:ks.index(k) + 1]])
        state_type = b["name"] + "__" + b["chain"][-1][0]
        templates[state_type] = base
        to_x.append(state_type)
        templates[b["name"]] = "/".join(["{%s}" % P, "{%s:%s}" % (T, b["code"])])
        chain_keys = [P, T] + [k for k, _, _ in b["chain"]]
        extras = []
        for lf in b["leaves"]:
            for k, _, _ in lf["extra"]:
                if k not in extras:
                    extras.append(k)
        key_types[b["name"]] = chain_keys + extras + [Lb]
        narrowing[b["name"]] = "%s=~%s" % (T, b["code"])
    templates[P] = "{%s}" % P
    key_types[P] = [P]
    leaf_keys = {b["name"]: b.get("leaf_key", L) for b in spec["basetypes"]}
    leaf_keys[P] = L
    leaf_keys[None] = L
    kp = {k: v for k, v in kp.items() if v or k in ("__", ALL)}
    return templates, to_x, kp, key_types, leaf_keys, narrowing


def variant_for(spec, pc):
    """The specification as a path configuration with its own vocabulary sees it (pc: overrides dict)."""
    v = copy.deepcopy(spec)
    if isinstance(pc, dict):
        if "projects" in pc:
            v["projects"] = dict(pc["projects"])
        if "state_values" in pc:
            v["state"]["values"] = dict(pc["state_values"])
            v["state"]["default"] = pc.get("state_default", list(pc["state_values"].values())[0])
        if "prod" in pc:
            v["prod"] = pc["prod"]
        for b in v["basetypes"]:
            if b["name"] in pc.get("folders", {}):
                b["folder"] = pc["folders"][b["name"]]
    return v


def root_of(pc):
    return pc["root"] if isinstance(pc, dict) else pc


def path_tables(spec):
    """-> (path_templates with '{@root}', path_mapping, path_defaults, fs key_patterns updates)"""
    P, T, L = spec["key_project"], spec["key_type"], spec["leaf_key"]
    sep = spec["sep"]
    out = {}
    for b in spec["basetypes"]:
        head = "{@root}/{%s}/%s/{%s:%s}" % (P, spec["prod"], T, b["folder"]) if spec["prod"] else "{@root}/{%s}/{%s:%s}" % (P, T, b["folder"])
        dirs, levels = [], []
        for k, kind, data in b["chain"]:
            if k in b["dirs"]:
                dirs.append(b["dirs"][k])
                levels.append((k, head + "/" + "/".join(dirs)))
        vdir = levels[-1][1]
        for lf in b["leaves"]:
            fname = sep.join("{%s}" % k for k in lf["name"]) + ".{%s:%s}" % (b.get("leaf_key", L), lf["ext"])
            out[b["name"] + "__" + lf["type"]] = vdir + ("/" + lf["sub"] if lf["sub"] else "") + "/" + fname
        for k, p in reversed(levels):
            out[b["name"] + "__" + k] = p
        out[b["name"]] = head
    out[P] = "{@root}/{%s}" % P
    mapping = {P: {v: k for k, v in spec["projects"].items()},
               T: {b["folder"]: b["code"] for b in spec["basetypes"]},
               spec["state"]["key"]: {v: k for k, v in spec["state"]["values"].items()}}
    defaults = {spec["state"]["key"]: spec["state"]["default"]}
    return out, mapping, defaults


def render(spec, dst):
    """Write the package into dst (a directory that becomes the first PYTHONPATH entry)."""
    os.makedirs(dst, exist_ok=True)
    P, T, L = spec["key_project"], spec["key_type"], spec["leaf_key"]
    templates, to_x, kp, key_types, leaf_keys, narrowing = sid_tables(spec)
    sid_src = ["sip = '/'", "projects = %r" % list(spec["projects"]), "sid_templates = {"]
    sid_src += ["    %r: %r," % (k, v) for k, v in templates.items()] + ["}", "to_extrapolate = %r" % to_x]
    for name, vals in spec["ext_sets"].items():
        sid_src.append("extensions_%s = %r" % (name, vals))
    sid_src.append("extension_alias = %r" % spec["alias"])
    sid_src.append("asset_types = %r" % (spec["basetypes"][0]["constants"].get(spec["basetypes"][0]["chain"][0][0], [])))
    sid_src.append("key_patterns = %r" % kp)
    sid_src.append("key_types = %r" % key_types)
    sid_src.append("leaf_keys = %r" % leaf_keys)
    sid_src.append("basetyped_search_narrowing = %r" % narrowing)
    sid_src.append("typed_search_narrowing = {}")
    _w(dst, "spil_sid_conf.py", "\n".join(sid_src) + "\n")

    ptemplates, mapping, defaults = path_tables(spec)
    names = list(spec["path_configs"])
    skey = spec["state"]["key"]
    fs = ["from spil_sid_conf import key_patterns", "from pathlib import Path",
          "project_root_path = Path(__file__).parent / 'data' / 'testing' / 'SPIL_PROJECTS' / %r / 'PROJECTS'" % root_of(spec["path_configs"][names[0]]),
          "path_templates = {"] + ["    %r: %r," % (k, v) for k, v in ptemplates.items()] + ["}",
          "path_templates = {k: v.replace('{@root}', project_root_path.as_posix()) for k, v in path_templates.items()}",
          "path_defaults = %r" % defaults, "sidkeys_to_extrakeys = {}", "extrakeys_to_sidkeys = {}", "path_mapping = %r" % mapping,
          "search_path_mapping = {}", "key_patterns = {k: dict(v) for k, v in key_patterns.items()}",
          "key_patterns['__'].update({%r: %r})" % ("{%s}" % skey, "{%s:%s}" % (skey, closed(list(spec["state"]["values"].values())))),
          "key_patterns[''].update({%r: %r})" % ("{%s}" % P, "{%s:%s}" % (P, closed(list(spec["projects"].values()))))]
    for b in spec["basetypes"]:
        fs.append("key_patterns[''].update({%r: %r})" % ("{%s:%s}" % (T, b["folder"]), "{%s:(%s%s)}" % (T, b["folder"], SEARCH)))
    _w(dst, "spil_fs_conf.py", "\n".join(fs) + "\n")
    path_configs = {names[0]: "spil_fs_conf"}
    for n in names[1:]:
        mod = "spil_fs_%s_conf" % n
        path_configs[n] = mod
        pc = spec["path_configs"][n]
        if isinstance(pc, dict) and len(pc) > 1:
            # a path configuration with its own folder vocabulary: a complete module of its own
            vs = variant_for(spec, pc)
            vt, vm, vd = path_tables(vs)
            head = ["from spil_sid_conf import key_patterns", "from pathlib import Path"]
            copy_line = "key_patterns = {k: dict(v) for k, v in key_patterns.items()}"
            if pc.get("style") == "demo":
                # written the way the demo writes its second configuration: everything star-imported from the first one, the
                # pattern table copied one level deep (so the groups are shared with the module it came from), then updated
                head = ["from %s import *  # noqa" % path_configs[names[0]], "from pathlib import Path"]
                copy_line = "key_patterns = key_patterns.copy()  # noqa"
            lines = head + [
                     "project_root_path = Path(__file__).parent / 'data' / 'testing' / 'SPIL_PROJECTS' / %r / 'PROJECTS'" % root_of(pc),
                     "path_templates = {"] + ["    %r: %r," % (k, v) for k, v in vt.items()] + ["}",
                     "path_templates = {k: v.replace('{@root}', project_root_path.as_posix()) for k, v in path_templates.items()}",
                     "path_defaults = %r" % vd, "sidkeys_to_extrakeys = {}", "extrakeys_to_sidkeys = {}", "path_mapping = %r" % vm,
                     "search_path_mapping = {}", copy_line,
                     "key_patterns['__'].update({%r: %r})" % ("{%s}" % skey, "{%s:%s}" % (skey, closed(list(vs["state"]["values"].values())))),
                     "key_patterns[''].update({%r: %r})" % ("{%s}" % P, "{%s:%s}" % (P, closed(list(vs["projects"].values()))))]
            for b in vs["basetypes"]:
                lines.append("key_patterns[''].update({%r: %r})" % ("{%s:%s}" % (T, b["folder"]), "{%s:(%s%s)}" % (T, b["folder"], SEARCH)))
            _w(dst, mod + ".py", "\n".join(lines) + "\n")
            continue
        _w(dst, mod + ".py", "\n".join([
            "from spil_fs_conf import *  # noqa", "from pathlib import Path",
            "other_root_path = Path(__file__).parent / 'data' / 'testing' / 'SPIL_PROJECTS' / %r / 'PROJECTS'" % root_of(spec["path_configs"][n]),
            "path_templates = path_templates.copy()  # noqa",
            "path_templates = {k: v.replace(project_root_path.as_posix(), other_root_path.as_posix()) for k, v in path_templates.items()}  # noqa"]) + "\n")
    sources = routing(spec)
    data = ["from __future__ import annotations", "from pathlib import Path", "path_configs = %r" % path_configs,
            "default_path_config = %r" % spec["default_path_config"], "_verif_sources = %r" % sources, "_finders = {}", "_getter = {}",
            "def _build():", "    from spil import FindInConstants, FindInPaths", "    f = {'default': FindInPaths()}",
            "    done = {}", "    for typ, d in _verif_sources.items():", "        k = (d['key'], tuple(d['values']), d['parent'])",
            "        if k not in done:",
            "            parent = None if d['parent'] is None else (f['default'] if d['parent'] == 'paths' else f[d['parent']])",
            "            done[k] = FindInConstants(d['key'], d['values'], parent_source=parent)", "        f[typ] = done[k]", "    _finders.update(f)",
            "def get_finder_for(search_sid, config=None):", "    if not _finders:", "        _build()",
            "    return _finders.get(search_sid.type) or _finders['default']",
            "def get_getter_for(sid, attribute=None, config=None):", "    from spil import GetFromPaths", "    from hamlet_plugins.next_get import NextGetter",
            "    if attribute == 'next.%s':" % spec["version"]["key"], "        return NextGetter()", "    if sid.type in _verif_sources:", "        return None",
            "    if 'g' not in _getter:", "        _getter['g'] = GetFromPaths()", "    return _getter['g']",
            "def get_writer_for(sid):", "    raise NotImplementedError()", "path_data_suffix = '.data.json'", "create_file_using_template = {}",
            "create_file_using_touch = True", "def get_data_json_path(sid_path: Path) -> Path:",
            "    return sid_path.with_name('.' + sid_path.name).with_suffix(path_data_suffix)"]
    _w(dst, "spil_data_conf.py", "\n".join(data) + "\n")
    os.makedirs(os.path.join(dst, "hamlet_plugins"), exist_ok=True)
    _w(os.path.join(dst, "hamlet_plugins"), "__init__.py", "")
    v = spec["version"]
    _w(os.path.join(dst, "hamlet_plugins"), "next_get.py", "\n".join([
        "from spil import Sid, Getter", "class NextGetter(Getter):", "    def get_attr(self, sid, attribute):", "        _sid = Sid(sid)",
        "        key = %r" % v["key"], "        current = _sid.get(key)", "        if current:", "            if current in ['*', '>']:",
        "                version = (_sid.get_last(key).get(key) or %r)[%d:] or 0" % (v["prefix"] + "0" * v["digits"], len(v["prefix"])),
        "            else:", "                version = str(current)[%d:]" % len(v["prefix"]), "        else:", "            version = 0",
        "        version = %r + str('%%0%dd' %% (int(version) + 1))" % (v["prefix"], v["digits"]),
        "        return _sid.get_with(**{key: version}) or Sid()"]) + "\n")
    with open(os.path.join(dst, "_verif_spec.json"), "w") as f:
        json.dump(spec, f, indent=1, default=str)
    return dst


def routing(spec):
    P, T = spec["key_project"], spec["key_type"]
    src = {P: {"kind": "constants", "key": P, "values": list(spec["projects"]), "parent": None}}
    codes = [b["code"] for b in spec["basetypes"]]
    for b in spec["basetypes"]:
        src[b["name"]] = {"kind": "constants", "key": T, "values": codes, "parent": P}
        prev = b["name"]
        for k, kind, data in b["chain"]:
            if k in b["constants"]:
                src[b["name"] + "__" + k] = {"kind": "constants", "key": k, "values": list(b["constants"][k]), "parent": prev}
                prev = b["name"] + "__" + k
        sk = spec["state"]["key"]
        if any(k == sk for k, _, _ in b["chain"]):
            src[b["name"] + "__" + sk] = {"kind": "constants", "key": sk, "values": list(spec["state"]["values"]), "parent": "paths"}
    return src


def _w(d, name, text):
    with open(os.path.join(d, name), "w") as f:
        f.write(text)


# ------------------------------------------------------------------------------------------------ operators
def op_rename_keys(s):
    s = copy.deepcopy(s)
    ren = {"project": "show", "type": "kind", "task": "step", "version": "rev", "state": "status", "asset": "name", "assettype": "cat",
           "sequence": "seq", "shot": "cut", "node": "part"}
    return _rename_keys(s, ren)


def _rename_keys(s, ren):
    r = lambda k: ren.get(k, k)
    s["key_project"], s["key_type"] = r(s["key_project"]), r(s["key_type"])
    s["state"]["key"], s["version"]["key"] = r(s["state"]["key"]), r(s["version"]["key"])
    for b in s["basetypes"]:
        b["chain"] = [(r(k), kind, d) for k, kind, d in b["chain"]]
        b["dirs"] = {r(k): _sub(v, ren) for k, v in b["dirs"].items()}
        b["constants"] = {r(k): v for k, v in b["constants"].items()}
        for lf in b["leaves"]:
            lf["name"] = [r(k) for k in lf["name"]]
            lf["extra"] = [(r(k), kind, d) for k, kind, d in lf["extra"]]
    return s


def _sub(text, ren):
    return re.sub(r"\{(\w+)\}", lambda m: "{" + ren.get(m.group(1), m.group(1)) + "}", text)


def op_rename_basetypes(s):
    s = copy.deepcopy(s)
    for b, n in zip(s["basetypes"], ["element", "cut", "extra"]):
        b["name"] = n
    return s


def op_type_codes(s):
    s = copy.deepcopy(s)
    for b, (c, f) in zip(s["basetypes"], [("lib", "LIBRARY"), ("ep", "EPISODES"), ("x", "EXTRA")]):
        b["code"], b["folder"] = c, f
    return s


def op_rename_leaf_key(s):
    s = copy.deepcopy(s)
    s["leaf_key"] = "fmt"
    return s


def op_insert_level(s):
    s = copy.deepcopy(s)
    b = s["basetypes"][0]
    i = [k for k, _, _ in b["chain"]].index(s["version"]["key"])
    b["chain"].insert(i, ("variant", "closed", ["main", "alt"]))
    b["dirs"]["variant"] = "{variant}"
    for lf in b["leaves"]:
        j = lf["name"].index(s["state"]["key"]) if s["state"]["key"] in lf["name"] else len(lf["name"])
        lf["name"].insert(j, "variant")
    return s


def op_remove_level(s):
    s = copy.deepcopy(s)
    b = s["basetypes"][0]
    k0 = b["chain"][0][0]
    b["chain"] = b["chain"][1:]
    b["dirs"].pop(k0, None)
    b["constants"].pop(k0, None)
    for lf in b["leaves"]:
        lf["name"] = [k for k in lf["name"] if k != k0]
    return s


def op_separator(s):
    s = copy.deepcopy(s)
    s["sep"] = "-"
    for b in s["basetypes"]:
        b["dirs"] = {k: v.replace("}_{", "}-{") for k, v in b["dirs"].items()}
    return s


def op_folders(s):
    s = copy.deepcopy(s)
    s["prod"] = "WORKAREA"
    for b in s["basetypes"]:
        for lf in b["leaves"]:
            if lf["sub"]:
                lf["sub"] = "out/" + lf["sub"].lower()
            elif lf["type"] == "file":
                lf["sub"] = "scenes"
    return s


def op_vocabularies(s):
    s = copy.deepcopy(s)
    s["projects"] = {"macbeth": "MACBETH", "lear": "KING_LEAR"}
    s["state"]["values"] = {"wip": "WIP", "pub": "PUB", "arc": "ARCHIVE"}
    s["state"]["default"] = "WIP"
    s["ext_sets"] = {"scenes": ["ma", "hip", "blend", "maya"], "caches": ["abc", "vdb", "cache"], "movies": ["mov", "mxf", "movie"]}
    s["alias"] = {"cache": ["abc", "vdb"], "maya": ["ma"], "movie": ["mov", "mxf"]}
    for b in s["basetypes"]:
        b["chain"] = [(k, kind, (["concept", "build", "look"] if kind == "closed" and k == b["chain"][2][0] else d)) for k, kind, d in b["chain"]]
    return s


def op_digits(s):
    s = copy.deepcopy(s)
    s["version"] = {"key": s["version"]["key"], "prefix": "r", "digits": 4}
    for b in s["basetypes"]:
        b["chain"] = [(k, kind, (("s", 2) if kind == "digit" and d[0] == "sq" else (("c", 3) if kind == "digit" else d))) for k, kind, d in b["chain"]]
    return s


def op_third_basetype(s):
    s = copy.deepcopy(s)
    vk, sk = s["version"]["key"], s["state"]["key"]
    s["basetypes"].append({"name": s["basetypes"][0]["name"] + "lib", "code": "r", "folder": "RENDERS",      # its name extends the first basetype's name
                           "chain": [("layer", "open", None), ("pass", "closed", ["beauty", "depth"]), (vk, "version", None), (sk, "state", None)],
                           "dirs": {"layer": "{layer}", "pass": "{pass}", vk: "{%s}" % vk},
                           "constants": {}, "leaf_key": "task",      # own leaf key, spelled like a mid-level key of the other basetypes
                           "leaves": [{"type": "file", "ext": "movies", "sub": None, "name": ["layer", "pass", sk, vk], "extra": []}]})
    return s


def op_third_path_config(s):
    """A third path configuration with its own folder vocabulary (project, type and state folders named differently)."""
    s = copy.deepcopy(s)
    s["path_configs"] = dict(s["path_configs"], archive={
        "root": "ARCHIVE", "prod": "STORE",
        "projects": {k: "arch_" + v.lower() for k, v in s["projects"].items()},
        "state_values": {k: "st_" + k.upper() for k in s["state"]["values"]},
        "folders": {b["name"]: "LIB_" + b["folder"][:3] for b in s["basetypes"]}})
    return s


def op_partial_path_config(s):
    """Two projects, and a third path configuration that hosts only the first of them: the other project's Sids have no path there."""
    s = copy.deepcopy(s)
    if len(s["projects"]) < 2:
        s["projects"] = {"macbeth": "MACBETH", "lear": "KING_LEAR"}
    first = list(s["projects"])[0]
    s["path_configs"] = dict(s["path_configs"], archive={
        "root": "ARCHIVE", "prod": s.get("prod"),
        "projects": {first: "arch_" + s["projects"][first].lower()}})
    return s


def op_third_path_config_demo_style(s):
    """The third path configuration (own vocabulary) written in the style of the demo's second one (star import, shallow copy)."""
    s = op_third_path_config(s)
    s["path_configs"]["archive"]["style"] = "demo"
    return s


def op_name_patterns(s):
    """Free-text keys get a value pattern that excludes '/' and the file-name separator ('[^/_]+'); the first basetype also gets
    a level more, so that no other basetype has a leaf type of the same depth with pattern-free templates."""
    if not any(k == "variant" for k, _, _ in s["basetypes"][0]["chain"]):
        s = op_insert_level(s)
    else:
        s = copy.deepcopy(s)
    s["open_pattern"] = "[^/%s]+" % s["sep"]
    return s


def op_default_not_first(s):
    """The default path configuration is not the first one listed."""
    s = copy.deepcopy(s)
    s["default_path_config"] = list(s["path_configs"])[-1]
    return s


def op_explicit_levels(s):
    """Intermediate types that extrapolation would generate are also written out by hand (second chain level of each basetype)."""
    s = copy.deepcopy(s)
    s["explicit_levels"] = {b["name"]: [b["chain"][1][0]] for b in s["basetypes"] if len(b["chain"]) > 2}
    return s


OPERATORS = [("rename-keys", op_rename_keys), ("rename-basetypes", op_rename_basetypes), ("type-codes", op_type_codes),
             ("rename-leaf-key", op_rename_leaf_key), ("insert-level", op_insert_level), ("remove-level", op_remove_level),
             ("separator", op_separator), ("folders", op_folders), ("vocabularies", op_vocabularies), ("digit-patterns", op_digits),
             ("third-basetype", op_third_basetype), ("third-path-config", op_third_path_config),
             ("explicit-levels", op_explicit_levels), ("default-not-first", op_default_not_first),
             ("third-path-config-demo-style", op_third_path_config_demo_style), ("name-patterns", op_name_patterns),
             ("partial-path-config", op_partial_path_config)]


def family(tier):
    """name -> spec"""
    out = {"identity": copy.deepcopy(DEMO)}
    for n, f in OPERATORS:
        out[n] = f(DEMO)
    allspec = DEMO
    for n, f in OPERATORS:
        if n in ("remove-level", "third-path-config-demo-style", "name-patterns", "partial-path-config"):
            continue  # insert + remove on the same basetype is covered by pairs; the third configuration keeps its own module there
        allspec = f(allspec)
    out["all-together"] = allspec
    if tier == "thorough":
        for (n1, f1), (n2, f2) in itertools.combinations([o for o in OPERATORS if o[0] != "partial-path-config"], 2):
            out[n1 + "+" + n2] = f2(f1(DEMO))       # (the partial configuration is explored alone: its pairs have not been run yet)
    return out


# ------------------------------------------------------------------------------------------------ guards
def validate(spec):
    """Well-formedness (the conventions C20 lists). -> list of problems."""
    from mc.ref.model import ref_extrapolate, ref_inject, parse_template
    errs = []
    templates, to_x, kp, key_types, leaf_keys, narrowing = sid_tables(spec)
    full = ref_inject(ref_extrapolate(templates, to_x), kp)
    # every '/'-prefix of every template is owned by exactly one type
    owners = {}
    for t, v in full.items():
        owners.setdefault("/".join(k for k, _ in parse_template(v)) + "|" + _disc(v), []).append(t)
    for t, v in full.items():
        parts = _split_levels(v)
        for n in range(1, len(parts)):
            pre = "/".join(parts[:n])
            if pre not in full.values():
                errs.append(f"prefix {pre} of {t} is owned by no type")
    # key_types lists the keys of each template in order
    for t, v in full.items():
        base = t.split("__")[0]
        keys = [k for k, _ in parse_template(v)]
        kt = key_types.get(base, [])
        if [k for k in kt if k in keys] != keys:
            errs.append(f"key_types[{base}] does not list the keys of {t} in template order")
    # leaf templates end with the leaf key
    for b in spec["basetypes"]:
        for lf in b["leaves"]:
            if not _split_levels(full[b["name"] + "__" + lf["type"]])[-1].startswith("{" + b.get("leaf_key", spec["leaf_key"])):
                errs.append("leaf template does not end with the leaf key")
    # same key set => disjoint concrete vocabularies at one position at least
    byk = {}
    for t, v in full.items():
        byk.setdefault(tuple(k for k, _ in parse_template(v)), []).append(t)
    for ks, ts in byk.items():
        for a, b2 in itertools.combinations(ts, 2):
            pa, pb = parse_template(full[a]), parse_template(full[b2])
            if not any(_disjoint(x[1], y[1]) for x, y in zip(pa, pb)):
                errs.append(f"{a} and {b2} share a key set and are not mutually exclusive")
    # path templates use exactly the keys of the sid template; mappings one-to-one (in every path configuration)
    for n, pc in spec["path_configs"].items():
        if isinstance(pc, dict) and len(pc) > 1:
            _, vm, _ = path_tables(variant_for(spec, pc))
            for k, m in vm.items():
                if len(set(m.values())) != len(m):
                    errs.append(f"value mapping of {k} in path configuration {n} is not one-to-one")
    pt, mapping, defaults = path_tables(spec)
    for t, v in pt.items():
        if t not in full:
            errs.append(f"path template for unknown type {t}")
            continue
        pk = set(re.findall(r"\{(\w+)(?::[^}]*)?\}", v.replace("{@root}", "")))
        sk = set(k for k, _ in parse_template(full[t]))
        if pk != sk:
            errs.append(f"path template of {t} uses keys {sorted(pk)} but the sid template has {sorted(sk)}")
    for k, m in mapping.items():
        if len(set(m.values())) != len(m):
            errs.append(f"value mapping of {k} is not one-to-one")
    return errs


def _split_levels(v):
    """Split a template at the '/' between placeholders (a value pattern may itself contain '/')."""
    out, cur, depth = [], "", 0
    for ch in v:
        if ch == "{":
            depth += 1
        elif ch == "}":
            depth -= 1
        if ch == "/" and depth == 0:
            out.append(cur)
            cur = ""
        else:
            cur += ch
    out.append(cur)
    return out


def _disc(v):
    return "|".join(re.findall(r":([a-z]+)\}", v))


def _lits(p):
    if p is None:
        return None
    from mc.ref.model import _top_alts
    return {a for a in _top_alts(p) if a not in ("\\*", "\\>")}


def _disjoint(p1, p2):
    a, b = _lits(p1), _lits(p2)
    if a is None or b is None:
        return False
    if any("\\d" in x for x in a | b):
        return a.isdisjoint(b) and not any("\\d" in x for x in a & b)
    return a.isdisjoint(b)


def binding_report(repo_conf_dir, rendered_dir):
    """Compare render(DEMO) with the repository's demo package table by table. -> list of differences."""
    import sys, importlib
    from mc.ref import confview
    diffs = []

    def load(d):
        saved_path, saved_priv = list(sys.path), dict(confview._private)
        confview._private.clear()
        sys.path.insert(0, d)
        try:
            mods = {n: confview.load_private(n) for n in ("spil_sid_conf", "spil_fs_conf", "spil_data_conf")}
            fs2 = confview.load_private(mods["spil_data_conf"].path_configs["server"])
        finally:
            sys.path[:] = saved_path
            confview._private.clear()
            confview._private.update(saved_priv)
        return mods, fs2

    (a, a2), (b, b2) = load(repo_conf_dir), load(rendered_dir)
    from mc.ref.model import ref_extrapolate, ref_inject
    ta = ref_inject(ref_extrapolate(dict(a["spil_sid_conf"].sid_templates), a["spil_sid_conf"].to_extrapolate), a["spil_sid_conf"].key_patterns)
    tb = ref_inject(ref_extrapolate(dict(b["spil_sid_conf"].sid_templates), b["spil_sid_conf"].to_extrapolate), b["spil_sid_conf"].key_patterns)
    if list(ta.items()) != list(tb.items()):
        diffs.append(("sid templates", [x for x in ta.items() if x not in tb.items()][:3], [x for x in tb.items() if x not in ta.items()][:3]))
    for attr in ("extension_alias", "leaf_keys", "key_types", "basetyped_search_narrowing"):
        if getattr(a["spil_sid_conf"], attr) != getattr(b["spil_sid_conf"], attr):
            diffs.append((attr, getattr(a["spil_sid_conf"], attr), getattr(b["spil_sid_conf"], attr)))
    ra, rb = a["spil_fs_conf"].project_root_path.as_posix(), b["spil_fs_conf"].project_root_path.as_posix()
    pa = {k: v.replace(ra, "<root>") for k, v in a["spil_fs_conf"].path_templates.items()}
    pb = {k: v.replace(rb, "<root>") for k, v in b["spil_fs_conf"].path_templates.items()}
    if pa != pb:
        diffs.append(("path templates", [x for x in pa.items() if x not in pb.items()][:3], [x for x in pb.items() if x not in pa.items()][:3]))
    for attr in ("path_mapping", "path_defaults"):
        if getattr(a["spil_fs_conf"], attr) != getattr(b["spil_fs_conf"], attr):
            diffs.append((attr, getattr(a["spil_fs_conf"], attr), getattr(b["spil_fs_conf"], attr)))
    if a["spil_data_conf"].path_configs != b["spil_data_conf"].path_configs:
        diffs.append(("path_configs", a["spil_data_conf"].path_configs, b["spil_data_conf"].path_configs))
    return diffs
